#!/bin/bash
# confirm_seeded.sh <worktree> : independent confirmation of a sub-agent's seeded change inside its scratch worktree:
# the patch in _out/patch.diff is what is applied, the full suite passes with it, the demo fails with it and passes without it.
W=$1; cd "$W" || exit 2
export CARGO_NET_OFFLINE=true CARGO_BUILD_JOBS=${CARGO_BUILD_JOBS:-6}
rm -f tests/seeded_demo*.rs
git stash -q -u -- src cddl-derive Cargo.toml Cargo.lock cddl.pest 2>/dev/null; git checkout -q -- . 
git apply _out/patch.diff || { echo "CONFIRM patch does not apply"; exit 3; }
timeout 3000 cargo test --workspace --no-fail-fast --offline > _out/confirm_suite.log 2>&1
p=$(grep -E "^test result" _out/confirm_suite.log | awk '{p+=$4} END {print p}'); f=$(grep -E "^test result" _out/confirm_suite.log | awk '{f+=$6} END {print f}')
echo "CONFIRM suite-with-change passed=$p failed=$f"
if [ -f _out/demo.rs ]; then
  cp _out/demo.rs tests/seeded_demo.rs
  timeout 1500 cargo test --offline --test seeded_demo > _out/confirm_demo_with.log 2>&1; echo "CONFIRM demo-with-change exit=$? (expected non-zero)"
  git apply -R _out/patch.diff
  timeout 1500 cargo test --offline --test seeded_demo > _out/confirm_demo_without.log 2>&1; echo "CONFIRM demo-without-change exit=$? (expected 0)"
else
  timeout 1500 bash _out/demo.sh > _out/confirm_demo_with.log 2>&1; echo "CONFIRM demo-with-change exit=$? (expected non-zero)"
  git apply -R _out/patch.diff
  timeout 1500 bash _out/demo.sh > _out/confirm_demo_without.log 2>&1; echo "CONFIRM demo-without-change exit=$? (expected 0)"
fi
rm -f tests/seeded_demo.rs
