#!/bin/bash
# Runs the repository's own test suite on a *copy* of /repo's working tree (so /repo can keep changing).
# usage: repo_suite.sh <tag>   -> /var/tmp/repo-suite-<tag>.log ; last line "SUITE <tag> passed=N failed=M"
T=${1:-x}
mkdir -p /var/tmp/repo-test
rsync -a --delete --exclude target --exclude .git /repo/ /var/tmp/repo-test/
cd /var/tmp/repo-test
CARGO_NET_OFFLINE=true CARGO_BUILD_JOBS=${CARGO_BUILD_JOBS:-8} timeout 3000 cargo test --workspace --no-fail-fast --offline > /var/tmp/repo-suite-$T.log 2>&1
p=$(grep -E "^test result" /var/tmp/repo-suite-$T.log | awk '{p+=$4} END {print p}')
f=$(grep -E "^test result" /var/tmp/repo-suite-$T.log | awk '{f+=$6} END {print f}')
echo "SUITE $T passed=$p failed=$f" >> /var/tmp/repo-suite-$T.log
