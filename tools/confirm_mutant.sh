#!/bin/bash
# confirm_mutant.sh <Cxx> <k>  -- uses scratch worktree /tmp/mut-<Cxx> and its _out/m<k>.* files.
# Confirms: patch applies+compiles, the existing suite passes with it, the demo fails with it and passes without it.
# Then stores /verif/seeded/<Cxx>-m<k>/{patch.diff,demo.*,meta.json}
set -u
P=$1; K=$2; W=/tmp/mut-$P; O=$W/_out
export CARGO_NET_OFFLINE=true
export CARGO_BUILD_JOBS=${CARGO_BUILD_JOBS:-6}
cd $W || exit 2
git checkout -q -- . ; rm -f tests/seeded_demo_*.rs
LOG=$O/confirm_m$K.log; : > $LOG
demo_rs=$O/m${K}_demo.rs; demo_sh=$O/m${K}_demo.sh
run_demo() {
  if [ -f $demo_rs ]; then cp $demo_rs tests/seeded_demo_$K.rs; timeout 1500 cargo test --offline --test seeded_demo_$K >>$LOG 2>&1; r=$?; rm -f tests/seeded_demo_$K.rs; return $r
  else timeout 1500 bash $demo_sh >>$LOG 2>&1; return $?; fi
}
echo "== clean demo" >>$LOG; run_demo; clean_rc=$?
git apply $O/m$K.patch >>$LOG 2>&1 || { echo "$P m$K: PATCH DOES NOT APPLY"; exit 1; }
echo "== mutant demo" >>$LOG; run_demo; mut_rc=$?
echo "== mutant suite" >>$LOG
timeout 3000 cargo test --workspace --no-fail-fast --offline >$O/suite_m$K.log 2>&1; suite_rc=$?
passed=$(grep -E "^test result" $O/suite_m$K.log | sed -E 's/.* ([0-9]+) passed.*/\1/' | paste -sd+ | bc)
failed=$(grep -E "^test result" $O/suite_m$K.log | sed -E 's/.* ([0-9]+) failed.*/\1/' | paste -sd+ | bc)
git checkout -q -- .
echo "$P m$K: demo_clean_rc=$clean_rc demo_mutant_rc=$mut_rc suite_rc=$suite_rc passed=$passed failed=$failed"
if [ $clean_rc -eq 0 ] && [ $mut_rc -ne 0 ] && [ $suite_rc -eq 0 ] && [ "$failed" = "0" ]; then
  D=/verif/seeded/$P-m$K; mkdir -p $D
  cp $O/m$K.patch $D/patch.diff
  [ -f $demo_rs ] && cp $demo_rs $D/demo.rs; [ -f $demo_sh ] && cp $demo_sh $D/demo.sh
  python3 - "$O/m${K}_meta.json" "$D/meta.json" "$passed" <<'PY'
import json,sys
m=json.load(open(sys.argv[1]))
m['confirmed_by_main_session']={"suite":"cargo test --workspace --no-fail-fast --offline with the patch applied: %s passed, 0 failed"%sys.argv[3],"demo":"fails with the patch, passes on the clean tree (run as tests/seeded_demo_k.rs or demo.sh in a scratch worktree)"}
json.dump(m,open(sys.argv[2],'w'),indent=1)
PY
  echo "  stored $D"
else
  echo "  NOT CONFIRMED (see $LOG)"
fi
