#!/usr/bin/env python3
"""List the violation witnesses of the last run of a check: signature, shrunk schema, shrunk document."""
import json,glob,sys,re
prop=sys.argv[1]
rows=[]
for f in glob.glob('/verif/replay/%s/*.json'%prop):
    d=json.load(open(f)); dd=d['detail']
    s=(dd.get('shrunk_schema') or dd.get('schema') or dd.get('shrunk') or '').strip().replace('\n',' | ')
    s=re.sub(r'\s+',' ',s)
    doc=dd.get('shrunk_json') or dd.get('shrunk_doc') or dd.get('shrunk_cbor') or ''
    rows.append((d['signature'].split(':')[0], s, str(doc), d['signature']))
for r in sorted(rows, key=lambda r:(r[0],len(r[1]))):
    print(r[0].ljust(13), r[1][:90].ljust(90), r[2][:40], ('   ['+r[3][:160]+']') if len(sys.argv)>2 else '')
print(len(rows))
