#!/usr/bin/env python3
"""addkf.py PROP  < lines of: id | dirs(comma) | all_of(comma) | any_of(comma) | none_of(comma) | what | witness-json"""
import json,sys
prop=sys.argv[1]
p='/verif/known_findings.json'
d=json.load(open(p))
have={f['id']:f for f in d['findings']}
for line in sys.stdin:
    line=line.strip()
    if not line or line.startswith('#'): continue
    parts=[x.strip() for x in line.split('|')]
    fid,dirs,allof,anyof,noneof,what=parts[:6]
    wit=json.loads(parts[6]) if len(parts)>6 and parts[6] else {}
    f={"id":fid,"property":prop,"status":"known","directions":[x for x in dirs.split(',') if x],
       "all_of":[x for x in allof.split(',') if x],"any_of":[x for x in anyof.split(',') if x],"none_of":[x for x in noneof.split(',') if x],
       "what":what,"witness":wit,
       "why_not_fixed":"pre-existing validator defect (see DESIGN.md triage for %s); identified by direction + construct tags of the shrunk witness, so a disagreement whose shrunk witness lacks these constructs is still a VIOLATION"%prop}
    if fid in have:
        have[fid].update(f)
    else:
        d['findings'].append(f)
json.dump(d,open(p,'w'),indent=1,ensure_ascii=False)
