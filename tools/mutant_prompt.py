#!/usr/bin/env python3
"""Prints the prompt given to a fresh sub-agent that is asked to seed a property-breaking change.
Only the property's title + statement is given (nothing from /verif)."""
import json, sys
pid = sys.argv[1]
n = sys.argv[2] if len(sys.argv) > 2 else "2"
for l in open('/verif/properties.jsonl'):
    d = json.loads(l)
    if d['id'] == pid:
        break
else:
    sys.exit("no such property")
print(f"""You are helping to test a verification suite by mutation seeding. You work ONLY inside the scratch git worktree /tmp/mut-{pid} (a checkout of the Rust project anweiss/cddl: a CDDL (RFC 8610) parser + JSON/CBOR/CSV validators, workspace with cddl, cddl-derive, cddl-lsp). Do NOT read or touch /verif or /repo (do not look there at all), and do not use the network (there is none; always pass --offline to cargo; CARGO_NET_OFFLINE=true).

Here is a semantic property that the project is supposed to satisfy:

  Title: {d['title']}
  Statement: {d['statement']}

Your task: produce {n} DIFFERENT, independent source changes ("mutants") to the project (each one a separate small patch against the clean worktree HEAD) such that each:
  1. BREAKS the property above (there is some input / sequence / condition for which the property no longer holds, where it did hold before your change for that input),
  2. still COMPILES, and the project's whole existing test suite still PASSES with the change applied: run `cd /tmp/mut-{pid} && cargo test --workspace --no-fail-fast --offline 2>&1 | grep -E "^test result|FAILED|failed|error" ` and make sure there are no failures (the clean tree has 713 passing tests),
  3. is REALISTIC (looks like a plausible bug a maintainer could introduce: an off-by-one, a swapped comparison, a dropped branch or guard, a missed case, a wrong default, state that leaks between calls, a reordering, an "optimisation" that is wrong in a corner) and is SUBTLE: it must need something specific to manifest — an unusual input, a specific combination of constructs, a multi-step sequence, a boundary value, two cooperating sites that each look fine alone — NOT something that ordinary use would expose at once. Do not simply delete large features or make everything fail.
  4. comes with a DEMONSTRATION: a small Rust integration test file (placed at /tmp/mut-{pid}/tests/seeded_demo_<k>.rs, using only the crate's public API and existing dev-dependencies) or a small shell script, which FAILS with the change applied and PASSES on the clean tree. Verify both directions yourself (git stash / git checkout to flip).

Please make the mutants differ in the code region / mechanism they touch (e.g. not two off-by-ones in the same function). Prefer changes in the library source under src/ (or cddl-derive/src, src/bin/cli.rs, Cargo features if the property is about those).

Deliverables — write these files (create directory /tmp/mut-{pid}/_out/):
  /tmp/mut-{pid}/_out/m<k>.patch      : `git diff` of the source change only (NOT including the demo test), against clean HEAD, for k = 1..{n}
  /tmp/mut-{pid}/_out/m<k>_demo.rs    : (or m<k>_demo.sh) the demonstration
  /tmp/mut-{pid}/_out/m<k>_meta.json  : {{"property": "{pid}", "summary": "...what was changed...", "needs_to_manifest": "...what specific input/sequence is needed...", "demo_cmd": "...", "ran": ["commands you ran and their outcome: tests pass with mutant, demo fails with mutant, demo passes on clean"]}}
When finished, leave the worktree CLEAN (git checkout -- . ; remove the demo test files from tests/; keep only _out/). Remove the build output directory /tmp/mut-{pid}/target at the end to free disk space (rm -rf /tmp/mut-{pid}/target).

Hints: the first build takes 1-3 minutes. To run one test file: `cargo test --offline --test seeded_demo_1`. Keep each patch small (ideally < 15 changed lines). Report briefly at the end what the mutants are.""")
