#!/bin/bash
# try_mutant.sh <seeded-dir-name> <Cxx> [tier]  -- apply seeded/<name>/patch.diff to /repo, run the check, undo.
set -u
N=$1; P=$2; T=${3:-quick}
cd /repo || exit 2
if [ -n "$(git status --porcelain)" ]; then echo "/repo not clean"; exit 2; fi
if ! git apply /verif/seeded/$N/patch.diff 2>/dev/null; then
  if ! git apply --3way /verif/seeded/$N/patch.diff >/dev/null 2>&1; then echo "$N: patch does not apply"; git checkout -q -- . ; exit 3; fi
  git reset -q
fi
cd /verif
out=$(timeout ${TRY_TIMEOUT:-1500} ./check $P --tier $T 2>&1)
rc=$?
echo "$out" | grep -E "^VIOLATION|^  signature|^INCONCLUSIVE" | head -8
echo "$out" | tail -1
echo "== $N vs $P: exit $rc"
git -C /repo checkout -q -- .
git -C /repo status --porcelain | head -3
