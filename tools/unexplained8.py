import json,glob,re,sys
rows=[]
for f in glob.glob('/verif/replay/%s/*.json'%sys.argv[1]):
    d=json.load(open(f)); dd=d['detail']
    s=re.sub(r'\s+',' ',dd['shrunk_schema'].strip().replace('\n',' | ')); s2=re.sub(r'\s+',' ',dd.get('shrunk_rho','').strip().replace('\n',' | '))
    rows.append((d['signature'].split(':')[0], s, s2, dd['shrunk_json'], d['signature']))
for r in sorted(rows,key=lambda r:(r[0],len(r[1]))): print(r[0].ljust(30), r[1][:70].ljust(70),'=>', r[2][:85].ljust(85), r[3][:25], ('['+r[4][:200]+']') if len(sys.argv)>2 else '')
print(len(rows))
