#!/usr/bin/env python3
"""Regenerates MANIFEST.json from the table below (kept as code so that it stays valid)."""
import json, subprocess

ALL = ["C%02d" % i for i in range(1, 21)]

CHECKS = {
 "C01": dict(
   text="Reference-model monitor: schemas generated in the core fragment (with per-schema construct switches so that most schemas use few construct families) x JSON documents (heuristic members, near misses, unrelated); validate_json_from_str's verdict is compared with the independent three-valued RFC 8610 evaluator R-eval (PEG array matcher, pair-to-member assignment with cuts for maps, least fixed point for recursion). Disagreements are shrunk on schema and document with a score that steers away from listed constructs, then looked up by direction + construct tags.",
   note="R-eval (vh/src/reval.rs) is hand-transcribed from RFC 8610; cases it leaves open are counted as unspecified. Ten classes of pre-existing JSON-validator defects are listed in known_findings.json (class findings by construct tags); one defect repaired (uint accepted negatives).",
   technique="runtime differential monitor against an executable reference model (R-eval) over generated schema/document pairs; shrink + tag-class attribution",
   design_ref="DESIGN.md section 3 C01"),
 "C02": dict(
   text="As C01 for validate_cbor_from_slice with the CBOR-only constructs (bytes, tags, #n/#7.m, non-text keys, 64-bit boundary integers), plus a metamorphic monitor: every data item is validated in its canonical encoding and in 3 random encodings (indefinite lengths, widened heads, float width, chunked strings) that the harness's RFC 8949 model decodes to the same item; all verdicts must agree.",
   note="R-eval + the RFC 8949 model of vh/src/dv.rs are the trusted base. Thirteen classes of pre-existing CBOR-validator defects are listed as class findings.",
   technique="runtime differential monitor (R-eval) + metamorphic encoding-equivalence monitor",
   design_ref="DESIGN.md section 3 C02"),
 "C04": dict(
   text="Pure differential monitor: the two validators observe each other on the same JSON-model value (JSON text vs canonical CBOR) for schemas over the shared feature set incl. generics, sockets, unwrap, group-to-choice, .and/.within/.default. R-eval is only recorded to say which side is wrong.",
   note="Seventeen classes of pre-existing asymmetries are listed as class findings (they mirror the C01/C02 classes).",
   technique="runtime differential monitor between two implementations (JSON validator vs CBOR validator)",
   design_ref="DESIGN.md section 3 C04"),
 "C08": dict(
   text="Metamorphic monitor: a generated schema S and its refactoring rho(S) (11 meaning-preserving rewrites: extract/inline rules, generic abstraction, two instantiations of one generic group, /= increments, sockets, parentheses, renaming, unused rules, reordering, group extraction) must give the same verdict on every value, for both validators. R-eval guards against harness-side rewrites that change the meaning.",
   note="Eight classes of pre-existing transparency defects (literal-only range bounds, table key aliases, controls through aliases, forwarded generic parameters ...) are listed as class findings. Seeded change C08-m1 (nested named group with several choices inside '&') is not reached by the random workload (see DESIGN.md).",
   technique="runtime metamorphic monitor over schema refactorings",
   design_ref="DESIGN.md section 3 C08"),
 "C09": dict(
   text="Identity monitor on observed verdicts: rewrites (swap alternatives, respell occurrences, splice a prelude name's Appendix D definition, a...b == a..(b-1)) and composites (A/B vs B/A vs A or B; .and/.within vs A and B; .ne vs .eq; inclusive vs exclusive range) for both validators.",
   note="Eight classes of pre-existing defects are listed (comparison controls, .and/.within on rule names, occurrence spelling on map members, '#n' forms of prelude names ...).",
   technique="runtime metamorphic / algebraic-identity monitor over pairs and triples of validator runs",
   design_ref="DESIGN.md section 3 C09"),
 "C10": dict(
   text="Permutation monitor: every map inside a document is permuted (all permutations up to 4 entries) in JSON text and CBOR encoding; members of schema map groups with distinct literal keys are permuted; CBOR maps with a duplicated pair are compared with R-eval deciding duplicates by assignment (only false accepts are judged).",
   note="Classes of pre-existing order dependence (tables next to literal members, same-domain table members, occurrence on literal members) are listed. Seeded change C10-m1 is not reached by the random workload (see DESIGN.md).",
   technique="runtime metamorphic monitor (permutation invariance) + reference model for duplicate keys",
   design_ref="DESIGN.md section 3 C10"),
 "C13": dict(
   text="Reference-reader monitor: CSV texts written from a table of classified cells are read by the harness's RFC 4180 reader and mapped per the CSV draft; validate_csv_from_str must succeed exactly when validate_json_from_str on the mapped document does, for 14 CSV-shaped schemas and all header flags. Texts with unspecified cells are counted only.",
   note="The JSON validator is the verdict oracle on both sides, as the property states. The reader is self-checked against the writer on every case.",
   technique="runtime differential monitor against a reference CSV reader + mapping",
   design_ref="DESIGN.md section 3 C13"),
 "C14": dict(
   text="Invariant + determinism monitor on validation results: non-empty error lists, JSON error locations that resolve in the document, distinguishable error kinds for malformed schema / malformed document / non-conforming document, and identical (verdict, ordered error list) between sequential repetitions, after unrelated calls, and from 8 concurrently released threads (overlap of calls is measured and reported).",
   note="Two known findings (malformed CBOR reported as CDDLParsing; relative JSON locations from nested validators). The crate has no shared mutable state of its own; TSan/Miri variants are described in DESIGN.md.",
   technique="runtime invariant monitor + repetition/concurrency determinism monitor with measured overlap + history-independence monitor on sibling calls (fresh thread vs forward vs reverse order); thorough tier adds a ThreadSanitizer build of the harness (-Zsanitizer=thread -Zbuild-std) over 640 cases x 8 threads",
   design_ref="DESIGN.md section 3 C14"),
 "C16": dict(
   text="Comment monitor with unique ids: recognition half (every AST comment is exactly one printed comment, unchanged, attached once; ';' inside literals never yields a comment) on randomly placed comments; formatting half on curated placements that must survive formatting exactly (template half), plus event classification on random placements.",
   note="AST comments are collected from the Debug rendering so that no comment field can be missed. The formatter's comment emission outside the curated placements is one listed finding.",
   technique="runtime monitor with unique-id instrumentation of the input (exactly-once / unchanged / no-absorption)",
   design_ref="DESIGN.md section 3 C16"),
 "C17": dict(
   text="Two monitors around cddl-derive: (1) round trip through the real proc macro: schemas generated from a model of the documented mapping subset (plus one tiny schema per entry of every field-name / rule-name / literal pool) are written into a scratch crate that invokes cddl_derive::cddl_typegen!, compiled (rustc errors are attributed to the schema whose macro call they point at), and run on model-generated instances that the library validates: deserialise, serialise, same data, validates again; failing instances are minimised against the compiled type and tagged with the constructs they exercise. (2) generation monitor: generate_all_types (codegen.rs compiled into the harness) is called repeatedly in-process and in fresh processes: byte-identical output, unique type names, unique field names per struct.",
   note="One defect repaired by a fix: commit (fields renamed by de-duplication lost their CDDL key). Ten classes of pre-existing code-generator defects are listed as class findings (optional+nullable null dropped, PascalCase collisions merged, nullable recursion unboxed, [* (T / null)] as Vec<()>, rule-level tables not flattened, keyword / digit-first / colliding variant names, std type names shadowed).",
   technique="runtime monitor over generated programs: compile + run the generated types on validated instances (round-trip oracle), cross-process determinism and uniqueness monitor on the generator output",
   design_ref="DESIGN.md section 3 C17"),
 "C19": dict(
   text="Per feature set (quick: 32 sets incl. the full set, all 8 all-but-one sets, all 8 single-feature sets and the empty set; thorough: all 256): (a) build monitor: cargo check of the library with exactly that set; compiler errors are events keyed by code, file, named identifiers and the +/- literals of the set. (b) behaviour monitor (quick: the 8 all-but-one sets; thorough: those plus every fourth of the 256 sets, rotated by the seed): a driver crate built against the set is run on a generated workload and compared record by record with the same driver built with all features: parser acceptance, Display text (exact, else classified as layout-only or token difference; commented schemas are compared with their comment-free twin when the set lacks ast-comments), Debug AST modulo span and empty comment fields, JSON / CBOR / CSV verdict classes and error counts. Items that use a control operator the set does not provide are skipped.",
   note="One defect repaired by a fix: commit (232 of 256 feature sets did not compile). Two known findings: the no-ast-comments printer lays text out differently (layout only); without ast-span the parser drops all comments although ast-comments is on.",
   technique="runtime differential monitor across builds: the same driver compiled per cargo feature set, run on one generated workload, outputs compared; compiler as build oracle over the feature lattice",
   design_ref="DESIGN.md section 3 C19"),
 "C18": dict(
   text="Process-boundary monitor: the cddl binary is rebuilt from /repo's working tree and run on generated invocations (11 schema kinds incl. .feature-dependent, first-rule-generic, groups-only, not compiling; 1..7 documents over --json/--cbor/--csv/--stdin, missing paths, --features lists, --csv-header, with and without --ci); every 'Validation of <path> is successful/failed' line and the exit status are compared with the library called by the harness on the same bytes with the same features; compile-cddl exit status against cddl_from_str.",
   note="Documents are small fixed shapes (the verdict logic is C01/C02's concern); what varies is routing, feature threading, ordering, missing files, stdin sniffing. Two defects repaired by fix: commits (features dropped for --cbor files and stdin JSON; abort on schemas without a root type rule).",
   technique="runtime monitor at the process boundary (argv/stdin -> log lines + exit status) against the library as oracle",
   design_ref="DESIGN.md section 3 C18"),
 "C20": dict(
   text="Pointer-identity monitor: the harness walks the public AST, records the true parent of every node kind that has a Parent impl (36 child/parent pairs) by address and compares with child.parent(&pv); wrong answers are classified (parent of an equal earlier/later child, unrelated, none).",
   note="Two defects repaired by fix: commits (structural-equality de-duplication; generic arguments of ~name not walked). Value-copied nodes (Occur, Value) are not checked.",
   technique="runtime invariant monitor over the returned index (address identity against an independent walk)",
   design_ref="DESIGN.md section 3 C20"),
 "C03": dict(
   text="Mirror monitor: derivation trees generated over the whole grammar are printed with randomised legal layout and parsed; the AST skeleton must equal the derivation (rule order, names, sockets, kinds, assignment operators, generic parameters, nesting of choices/groups/occurrences/member keys/operators, literal kinds and values). Disagreements are reproduced under a canonical rendering, shrunk on the derivation tree and explained by labelled repairs before lookup in known_findings.json. This decides 'derivable => accepted and mirrored' on the generated texts. The converse direction is judged only where the oracle is sound by construction: two edits per generated text that certainly leave the language (one bracket deleted outside literals and comments; a character no production can derive inserted outside literals and comments) must be rejected by cddl_from_str and CDDL::from_slice; a general recogniser for 'not derivable' was not built.",
   note="The harness-side grammar knowledge is the printer + skeleton (vh/src/gs.rs, skel.rs), written from RFC 8610 App. B / RFC 9682; group-vs-type rule ambiguity avoided by construction. Known findings: group rule with a bare entry, parenthesised type at the head of a group entry, '#' followed by white space and a digit or '('. Two defects repaired by fix: commits (.cborseq, byte-string member keys).",
   technique="runtime differential monitor: generated derivation -> printed text -> parser; invariant = skeleton equality; shrink + labelled-repair attribution",
   design_ref="DESIGN.md section 3 C03"),
 "C06": dict(
   text="Round-trip monitor on accepted documents (generated derivations with and without comments, repository fixtures whole and rule-sliced): T1 = Display(parse(D)) must parse, Skel(parse(T1)) == Skel(parse(D)), Display(parse(T1)) == T1. Shrunk on the derivation tree; comment-induced disagreements are separated from the rest by re-rendering the same derivation without comments.",
   note="The crate's parser is the observer of the formatter (C03 checks the parser). Known findings: formatter writes no commas (so the parser's '#'+white-space deviation resurfaces), comment emission. Four formatter defects repaired by fix: commits.",
   technique="runtime round-trip monitor (parse -> format -> parse -> format) with skeleton equality, shrink + labelled-repair attribution",
   design_ref="DESIGN.md section 3 C06"),
 "C07": dict(
   text="Value-first literal monitor: a value is drawn, spelled in a randomly chosen RFC 8610/9682/4648 form and placed in one of 24 syntactic positions; the AST field must carry exactly that value (floats by bits). 67 invalid or unrepresentable spellings in the same positions must be rejected.",
   note="Decimal float spellings are mapped to f64 by Rust's standard library; hexfloats are built exactly as m*2^e. Underflow is rounding (not judged). Two defects repaired by fix: commits (1e999 -> inf, dropped invalid \\u escapes).",
   technique="runtime reference-value monitor (value known by construction) + invalid-input rejection monitor",
   design_ref="DESIGN.md section 3 C07"),
 "C12": dict(
   text="Construction-based monitor: (a) rule lists over a small name pool with every mix of kinds and assignment operators; the expected accept/reject verdict, the offending rule and its line are known by construction and cross-checked by an independent pass; (b) derivations whose references all resolve with zero or one planted unresolved reference (fresh name at the k-th reference position, generic parameter out of scope, bare name of a socket); CDDL::from_slice must reject exactly those and name the reference.",
   note="Prelude = the 40 names listed in cddl.pest. One defect repaired by a fix: commit ($socket defined the plain name).",
   technique="runtime monitor with oracle by construction (planted defects), error message/position checks",
   design_ref="DESIGN.md section 3 C12"),
 "C15": dict(
   text="Invariant monitor on outputs: every span of the AST of accepted documents is checked against the source text (bounds, UTF-8 boundaries, line number, containment in parent, sibling order, identifier text, rule start, printer-recorded rule offsets); every Error::PARSER position of rejected single-edit mutants is checked (index/range inside input on character boundaries, non-inverted, line/column of index).",
   note="(0,0,0) spans on synthesised nodes are skipped and counted. Two defects repaired by fix: commits (error range inside a multi-byte character, member-key spans covering the whole entry).",
   technique="runtime invariant monitor over returned AST spans and error positions",
   design_ref="DESIGN.md section 3 C15"),
 "C05": dict(
   text="Crash/resource monitors around every public entry point run in crash-isolated worker processes (8 MiB stack, debug assertions + overflow checks): panic hook + catch_unwind, death by signal attributed to the journaled call (stack overflow call site recovered by re-running the case under gdb), CPU-time watchdog, thread-CPU-time scaling ladders up to the property's bound (64 KiB, depth 64) with a local-degree growth rule, hostile templates (cyclic / ill-typed schemas x documents), mutated fixtures, token soup, hostile CBOR heads in every head position, extreme numbers inside schemas (occurrence bounds on zero-width entries, sizes, ranges, regexp counts) and numeric extremes. Thorough tier adds an AddressSanitizer phase: the harness is rebuilt with -Zsanitizer=address and the first 6000 cases are re-run by that binary under the same monitors (a sanitizer report is attributed to the journaled call). Exploration: held on the executions listed in the evidence; sampled, not exhaustive.",
   note="CPU time from /proc and CLOCK_THREAD_CPUTIME_ID, never wall clock (a wall-clock watchdog only yields inconclusive). Super-polynomial = local degree > 6 between consecutive ladder sizes, confirmed by re-measurement. Known findings (alias-cycle stack overflows by call site, generic self-instantiation, exponential parse on unclosed brackets) are listed in known_findings.json; 8 defects were repaired by fix: commits.",
   technique="runtime crash/resource monitors (panic hook, signal attribution via journal + gdb call-site recovery, CPU watchdog, scaling ladders) over hostile generated workloads in isolated worker processes",
   design_ref="DESIGN.md section 3 C05"),
 "C11": dict(
   text="Differential monitoring of decode_cbor against an independent RFC 8949 decoder: exhaustive over all byte strings of length 0..2, structured 3..10-byte scope, generated items in varied encodings with every prefix and byte-level mutants. Thorough tier adds an AddressSanitizer phase (first 20000 cases re-run by an ASan build of the harness) and a Miri phase (8 interpreter processes x 10 cases spread over the case space, Undefined Behavior = violation). Exploration: held on the inputs executed, exhaustive only for the enumerated scope.",
   note="Trusts the hand-transcribed RFC 8949 rules in vh/src/dv.rs (model_decode); NaN payloads not compared; an indefinite text string with a chunk that ends inside a UTF-8 character must be refused (each chunk is a text string). Known finding C11-undefined-as-null is listed in known_findings.json.",
   technique="reference-model runtime monitor (differential oracle) over exhaustive small scope + generated/mutated inputs, crash-isolated worker processes",
   design_ref="DESIGN.md section 3 C11"),
}

NOT_YET = "check not built yet in this round (planned, see DESIGN.md section 3)"

def main():
    hooks_commits = []
    m = {
      "version": 1,
      "setup_cmd": "./check --setup",
      "hooks": {
        "guard": "cddl_verif",
        "enable": "none needed so far: every monitor observes the public API / process boundary; RUSTFLAGS='--cfg cddl_verif' is reserved",
        "baseline_off_cmd": "cd /repo && cargo test --workspace --no-fail-fast --offline",
        "source_commits": hooks_commits,
        "add_only": True,
      },
      "engines": [
        {"name": "vh", "path": "vh/", "serves_properties": sorted(CHECKS.keys()),
         "kind_free_text": "Rust harness linked against /repo's working tree: deterministic workload generators, hand-written reference models, metamorphic and invariant monitors, sharded crash-isolated worker processes with CPU watchdog; writes evidence/<id>.json"},
      ],
      "checks": [],
      "not_applicable": [],
      "notes": "Technique family: runtime monitoring. exit 0 = held on everything explored (KNOWN-FINDING lines for listed defects), 1 = VIOLATION, 2 = INCONCLUSIVE (harness-level only). Known findings: known_findings.json.",
    }
    for pid in ALL:
        if pid in CHECKS:
            c = CHECKS[pid]
            m["checks"].append({
              "property_id": pid,
              "quick_cmd": "./check %s --tier quick" % pid,
              "thorough_cmd": "./check %s --tier thorough" % pid,
              "evidence_file": "/verif/evidence/%s.json" % pid,
              "replay_cmd_template": "./check %s --replay {path}" % pid,
              "engine": "vh",
              "level_claimed": {"category": c.get("category", "exploration"), "text": c["text"], "design_ref": c["design_ref"]},
              "level_note": c["note"],
              "technique": c["technique"],
            })
        else:
            m["not_applicable"].append({"property_id": pid, "reason": NOT_YET})
    json.dump(m, open("/verif/MANIFEST.json", "w"), indent=1)
    print("checks:", len(m["checks"]), "not_applicable:", len(m["not_applicable"]))

main()
