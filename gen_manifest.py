#!/usr/bin/env python3
"""Regenerates MANIFEST.json from the table below (kept as code so that it stays valid)."""
import json, subprocess

ALL = ["C%02d" % i for i in range(1, 21)]

CHECKS = {
 "C05": dict(
   text="Crash/resource monitors around every public entry point run in crash-isolated worker processes (8 MiB stack, debug assertions + overflow checks): panic hook + catch_unwind, death by signal attributed to the journaled call (stack overflow call site recovered by re-running the case under gdb), CPU-time watchdog, thread-CPU-time scaling ladders up to the property's bound (64 KiB, depth 64) with a local-degree growth rule, hostile templates (cyclic / ill-typed schemas x documents), mutated fixtures, token soup, hostile CBOR heads and numeric extremes. Exploration: held on the executions listed in the evidence; sampled, not exhaustive.",
   note="CPU time from /proc and CLOCK_THREAD_CPUTIME_ID, never wall clock (a wall-clock watchdog only yields inconclusive). Super-polynomial = local degree > 6 between consecutive ladder sizes, confirmed by re-measurement. Known findings (alias-cycle stack overflows by call site, generic self-instantiation, exponential parse on unclosed brackets) are listed in known_findings.json; 8 defects were repaired by fix: commits.",
   technique="runtime crash/resource monitors (panic hook, signal attribution via journal + gdb call-site recovery, CPU watchdog, scaling ladders) over hostile generated workloads in isolated worker processes",
   design_ref="DESIGN.md section 3 C05"),
 "C11": dict(
   text="Differential monitoring of decode_cbor against an independent RFC 8949 decoder: exhaustive over all byte strings of length 0..2, structured 3..10-byte scope, generated items in varied encodings with every prefix and byte-level mutants. Exploration: held on the inputs executed, exhaustive only for the enumerated scope.",
   note="Trusts the hand-transcribed RFC 8949 rules in vh/src/dv.rs (model_decode); NaN payloads not compared; split-UTF-8 chunks undecided. Known finding C11-undefined-as-null is listed in known_findings.json.",
   technique="reference-model runtime monitor (differential oracle) over exhaustive small scope + generated/mutated inputs, crash-isolated worker processes",
   design_ref="DESIGN.md section 3 C11"),
}

NOT_YET = "check not built yet in this round (planned, see DESIGN.md section 3)"

def main():
    hooks_commits = []
    m = {
      "version": 1,
      "setup_cmd": "./check --setup",
      "hooks": {
        "guard": "cddl_verif",
        "enable": "none needed so far: every monitor observes the public API / process boundary; RUSTFLAGS='--cfg cddl_verif' is reserved",
        "baseline_off_cmd": "cd /repo && cargo test --workspace --no-fail-fast --offline",
        "source_commits": hooks_commits,
        "add_only": True,
      },
      "engines": [
        {"name": "vh", "path": "vh/", "serves_properties": sorted(CHECKS.keys()),
         "kind_free_text": "Rust harness linked against /repo's working tree: deterministic workload generators, hand-written reference models, metamorphic and invariant monitors, sharded crash-isolated worker processes with CPU watchdog; writes evidence/<id>.json"},
      ],
      "checks": [],
      "not_applicable": [],
      "notes": "Technique family: runtime monitoring. exit 0 = held on everything explored (KNOWN-FINDING lines for listed defects), 1 = VIOLATION, 2 = INCONCLUSIVE (harness-level only). Known findings: known_findings.json.",
    }
    for pid in ALL:
        if pid in CHECKS:
            c = CHECKS[pid]
            m["checks"].append({
              "property_id": pid,
              "quick_cmd": "./check %s --tier quick" % pid,
              "thorough_cmd": "./check %s --tier thorough" % pid,
              "evidence_file": "/verif/evidence/%s.json" % pid,
              "replay_cmd_template": "./check %s --replay {path}" % pid,
              "engine": "vh",
              "level_claimed": {"category": c.get("category", "exploration"), "text": c["text"], "design_ref": c["design_ref"]},
              "level_note": c["note"],
              "technique": c["technique"],
            })
        else:
            m["not_applicable"].append({"property_id": pid, "reason": NOT_YET})
    json.dump(m, open("/verif/MANIFEST.json", "w"), indent=1)
    print("checks:", len(m["checks"]), "not_applicable:", len(m["not_applicable"]))

main()
