//! Harness-side data-model values (DV), an RFC 8949 reference decoder (R-cbor),
//! CBOR encoders with encoding variation (G-enc) and JSON printing.
//! None of this shares code with the `cddl` crate or with ciborium.

use crate::rng::Rng;

#[derive(Clone, Debug)]
pub enum DV {
  /// any integer -2^64 ..= 2^64-1
  Int(i128),
  Float(f64),
  Text(String),
  Bytes(Vec<u8>),
  Bool(bool),
  Null,
  Undefined,
  /// simple values other than 20..=23
  Simple(u8),
  Array(Vec<DV>),
  /// physical pairs in encoded order; duplicates allowed
  Map(Vec<(DV, DV)>),
  Tag(u64, Box<DV>),
}

impl PartialEq for DV {
  fn eq(&self, o: &DV) -> bool {
    use DV::*;
    match (self, o) {
      (Int(a), Int(b)) => a == b,
      (Float(a), Float(b)) => (a.is_nan() && b.is_nan()) || a.to_bits() == b.to_bits(),
      (Text(a), Text(b)) => a == b,
      (Bytes(a), Bytes(b)) => a == b,
      (Bool(a), Bool(b)) => a == b,
      (Null, Null) => true,
      (Undefined, Undefined) => true,
      (Simple(a), Simple(b)) => a == b,
      (Array(a), Array(b)) => a == b,
      (Map(a), Map(b)) => a == b,
      (Tag(a, x), Tag(b, y)) => a == b && x == y,
      _ => false,
    }
  }
}

impl DV {
  pub fn depth(&self) -> usize {
    match self {
      DV::Array(a) => 1 + a.iter().map(|x| x.depth()).max().unwrap_or(0),
      DV::Map(m) => {
        1 + m
          .iter()
          .map(|(k, v)| k.depth().max(v.depth()))
          .max()
          .unwrap_or(0)
      }
      DV::Tag(_, x) => 1 + x.depth(),
      _ => 0,
    }
  }

  pub fn kind(&self) -> &'static str {
    match self {
      DV::Int(i) => {
        if *i >= 0 {
          "uint"
        } else {
          "nint"
        }
      }
      DV::Float(_) => "float",
      DV::Text(_) => "text",
      DV::Bytes(_) => "bytes",
      DV::Bool(_) => "bool",
      DV::Null => "null",
      DV::Undefined => "undefined",
      DV::Simple(_) => "simple",
      DV::Array(_) => "array",
      DV::Map(_) => "map",
      DV::Tag(..) => "tag",
    }
  }

  /// true when the value is in the JSON data model (text-keyed maps, no bytes/tags/simple)
  pub fn is_json(&self) -> bool {
    match self {
      DV::Int(i) => *i >= -(1i128 << 63) && *i <= u64::MAX as i128,
      DV::Float(f) => f.is_finite(),
      DV::Text(_) | DV::Bool(_) | DV::Null => true,
      DV::Bytes(_) | DV::Undefined | DV::Simple(_) | DV::Tag(..) => false,
      DV::Array(a) => a.iter().all(|x| x.is_json()),
      DV::Map(m) => {
        let mut seen = std::collections::HashSet::new();
        m.iter().all(|(k, v)| match k {
          DV::Text(s) => seen.insert(s.clone()) && v.is_json(),
          _ => false,
        })
      }
    }
  }

  /// JSON text. Floats are printed so that they re-read as floats (always with
  /// a fraction or exponent); integers as integer tokens.
  pub fn to_json(&self) -> String {
    let mut s = String::new();
    self.write_json(&mut s);
    s
  }

  fn write_json(&self, out: &mut String) {
    match self {
      DV::Int(i) => out.push_str(&i.to_string()),
      DV::Float(f) => out.push_str(&json_float(*f)),
      DV::Text(t) => json_string(t, out),
      DV::Bool(b) => out.push_str(if *b { "true" } else { "false" }),
      DV::Null => out.push_str("null"),
      DV::Array(a) => {
        out.push('[');
        for (i, x) in a.iter().enumerate() {
          if i > 0 {
            out.push(',');
          }
          x.write_json(out);
        }
        out.push(']');
      }
      DV::Map(m) => {
        out.push('{');
        for (i, (k, v)) in m.iter().enumerate() {
          if i > 0 {
            out.push(',');
          }
          match k {
            DV::Text(t) => json_string(t, out),
            other => json_string(&format!("{:?}", other), out),
          }
          out.push(':');
          v.write_json(out);
        }
        out.push('}');
      }
      DV::Bytes(_) | DV::Undefined | DV::Simple(_) | DV::Tag(..) => out.push_str("null"),
    }
  }

  /// compact diagnostic notation for evidence / witnesses
  pub fn diag(&self) -> String {
    match self {
      DV::Int(i) => i.to_string(),
      DV::Float(f) => {
        if f.is_nan() {
          "NaN".into()
        } else if f.is_infinite() {
          if *f > 0.0 {
            "Infinity".into()
          } else {
            "-Infinity".into()
          }
        } else {
          json_float(*f)
        }
      }
      DV::Text(t) => {
        let mut s = String::new();
        json_string(t, &mut s);
        s
      }
      DV::Bytes(b) => format!("h'{}'", hex(b)),
      DV::Bool(b) => b.to_string(),
      DV::Null => "null".into(),
      DV::Undefined => "undefined".into(),
      DV::Simple(n) => format!("simple({})", n),
      DV::Array(a) => format!(
        "[{}]",
        a.iter().map(|x| x.diag()).collect::<Vec<_>>().join(", ")
      ),
      DV::Map(m) => format!(
        "{{{}}}",
        m.iter()
          .map(|(k, v)| format!("{}: {}", k.diag(), v.diag()))
          .collect::<Vec<_>>()
          .join(", ")
      ),
      DV::Tag(t, x) => format!("{}({})", t, x.diag()),
    }
  }
}

pub fn hex(b: &[u8]) -> String {
  let mut s = String::with_capacity(b.len() * 2);
  for x in b {
    s.push_str(&format!("{:02x}", x));
  }
  s
}

pub fn unhex(s: &str) -> Vec<u8> {
  let c: Vec<u8> = s.bytes().filter(|c| c.is_ascii_hexdigit()).collect();
  c.chunks(2)
    .filter(|p| p.len() == 2)
    .map(|p| u8::from_str_radix(std::str::from_utf8(p).unwrap(), 16).unwrap())
    .collect()
}

pub fn json_float(f: f64) -> String {
  // Rust's shortest round-trip formatting; make sure it reads as a float token
  let s = format!("{:?}", f);
  if s.contains('.') || s.contains('e') || s.contains('E') {
    s
  } else {
    format!("{}.0", s)
  }
}

pub fn json_string(t: &str, out: &mut String) {
  out.push('"');
  for c in t.chars() {
    match c {
      '"' => out.push_str("\\\""),
      '\\' => out.push_str("\\\\"),
      '\n' => out.push_str("\\n"),
      '\r' => out.push_str("\\r"),
      '\t' => out.push_str("\\t"),
      c if (c as u32) < 0x20 => out.push_str(&format!("\\u{:04x}", c as u32)),
      c => out.push(c),
    }
  }
  out.push('"');
}

// ---------------------------------------------------------------------------
// R-cbor: RFC 8949 well-formedness + data model

#[derive(Debug, Clone, PartialEq)]
pub enum Wf {
  /// input ended inside the item
  Truncated,
  /// reserved additional information 28..30
  ReservedAi,
  /// indefinite-length marker on major type 0, 1 or 6
  BadIndefinite,
  /// break outside an indefinite-length item
  UnexpectedBreak,
  /// chunk of an indefinite string is not a definite string of the same major type
  BadChunk,
  /// two-byte simple value below 32
  BadSimple,
  /// text string is not valid UTF-8
  BadUtf8,
  /// nesting deeper than the model's recursion limit (not a verdict)
  TooDeep,
}

pub struct Decoded {
  pub v: DV,
  pub used: usize,
  /// the item contains an indefinite text string whose chunks are not each valid
  /// UTF-8 although their concatenation is (RFC 8949 calls this invalid, but it is
  /// a validity rather than a well-formedness matter): oracle declines
  pub split_utf8: bool,
}

pub fn f16_to_f64(h: u16) -> f64 {
  let sign = if h & 0x8000 != 0 { -1.0 } else { 1.0 };
  let exp = ((h >> 10) & 0x1f) as i32;
  let man = (h & 0x3ff) as f64;
  let v = if exp == 0 {
    man * (2.0f64).powi(-24)
  } else if exp == 31 {
    if man == 0.0 {
      f64::INFINITY
    } else {
      f64::NAN
    }
  } else {
    (1.0 + man / 1024.0) * (2.0f64).powi(exp - 15)
  };
  sign * v
}

struct Dec<'a> {
  b: &'a [u8],
  p: usize,
  split_utf8: bool,
}

impl<'a> Dec<'a> {
  fn byte(&mut self) -> Result<u8, Wf> {
    if self.p >= self.b.len() {
      return Err(Wf::Truncated);
    }
    let x = self.b[self.p];
    self.p += 1;
    Ok(x)
  }
  fn take(&mut self, n: u64) -> Result<&'a [u8], Wf> {
    let rem = (self.b.len() - self.p) as u64;
    if n > rem {
      return Err(Wf::Truncated);
    }
    let s = &self.b[self.p..self.p + n as usize];
    self.p += n as usize;
    Ok(s)
  }
  /// returns (major, ai, argument); argument is None for ai 31
  fn head(&mut self) -> Result<(u8, u8, Option<u64>), Wf> {
    let ib = self.byte()?;
    let mt = ib >> 5;
    let ai = ib & 0x1f;
    let arg = match ai {
      0..=23 => Some(ai as u64),
      24 => Some(self.byte()? as u64),
      25 => {
        let s = self.take(2)?;
        Some(u16::from_be_bytes([s[0], s[1]]) as u64)
      }
      26 => {
        let s = self.take(4)?;
        Some(u32::from_be_bytes([s[0], s[1], s[2], s[3]]) as u64)
      }
      27 => {
        let s = self.take(8)?;
        let mut a = [0u8; 8];
        a.copy_from_slice(s);
        Some(u64::from_be_bytes(a))
      }
      28..=30 => return Err(Wf::ReservedAi),
      _ => None,
    };
    Ok((mt, ai, arg))
  }

  fn item(&mut self, depth: usize) -> Result<DV, Wf> {
    if depth > 2000 {
      return Err(Wf::TooDeep);
    }
    let (mt, ai, arg) = self.head()?;
    match mt {
      0 => match arg {
        Some(n) => Ok(DV::Int(n as i128)),
        None => Err(Wf::BadIndefinite),
      },
      1 => match arg {
        Some(n) => Ok(DV::Int(-1 - n as i128)),
        None => Err(Wf::BadIndefinite),
      },
      2 | 3 => {
        let mut chunks: Vec<&[u8]> = vec![];
        match arg {
          Some(n) => chunks.push(self.take(n)?),
          None => loop {
            // peek for break
            if self.p >= self.b.len() {
              return Err(Wf::Truncated);
            }
            if self.b[self.p] == 0xff {
              self.p += 1;
              break;
            }
            let (cmt, _cai, carg) = self.head()?;
            if cmt != mt {
              return Err(Wf::BadChunk);
            }
            match carg {
              Some(n) => chunks.push(self.take(n)?),
              None => return Err(Wf::BadChunk),
            }
          },
        }
        let all: Vec<u8> = chunks.concat();
        if mt == 2 {
          Ok(DV::Bytes(all))
        } else {
          let each_ok = chunks.iter().all(|c| std::str::from_utf8(c).is_ok());
          match String::from_utf8(all) {
            Ok(s) => {
              if !each_ok {
                self.split_utf8 = true;
              }
              Ok(DV::Text(s))
            }
            Err(_) => Err(Wf::BadUtf8),
          }
        }
      }
      4 => {
        let mut items = vec![];
        match arg {
          Some(n) => {
            for _ in 0..n {
              items.push(self.item(depth + 1)?);
            }
          }
          None => loop {
            if self.p >= self.b.len() {
              return Err(Wf::Truncated);
            }
            if self.b[self.p] == 0xff {
              self.p += 1;
              break;
            }
            items.push(self.item(depth + 1)?);
          },
        }
        Ok(DV::Array(items))
      }
      5 => {
        let mut items = vec![];
        match arg {
          Some(n) => {
            for _ in 0..n {
              let k = self.item(depth + 1)?;
              let v = self.item(depth + 1)?;
              items.push((k, v));
            }
          }
          None => loop {
            if self.p >= self.b.len() {
              return Err(Wf::Truncated);
            }
            if self.b[self.p] == 0xff {
              self.p += 1;
              break;
            }
            let k = self.item(depth + 1)?;
            // a break in value position is not well-formed (odd number of items)
            let v = self.item(depth + 1)?;
            items.push((k, v));
          },
        }
        Ok(DV::Map(items))
      }
      6 => match arg {
        Some(n) => {
          let x = self.item(depth + 1)?;
          Ok(DV::Tag(n, Box::new(x)))
        }
        None => Err(Wf::BadIndefinite),
      },
      _ => match ai {
        0..=19 => Ok(DV::Simple(ai)),
        20 => Ok(DV::Bool(false)),
        21 => Ok(DV::Bool(true)),
        22 => Ok(DV::Null),
        23 => Ok(DV::Undefined),
        24 => {
          let n = arg.unwrap();
          if n < 32 {
            Err(Wf::BadSimple)
          } else {
            Ok(DV::Simple(n as u8))
          }
        }
        25 => Ok(DV::Float(f16_to_f64(arg.unwrap() as u16))),
        26 => Ok(DV::Float(f32::from_bits(arg.unwrap() as u32) as f64)),
        27 => Ok(DV::Float(f64::from_bits(arg.unwrap()))),
        31 => Err(Wf::UnexpectedBreak),
        _ => Err(Wf::ReservedAi),
      },
    }
  }
}

/// Decode the first data item of `b`.
pub fn model_decode(b: &[u8]) -> Result<Decoded, Wf> {
  let mut d = Dec {
    b,
    p: 0,
    split_utf8: false,
  };
  let v = d.item(0)?;
  Ok(Decoded {
    v,
    used: d.p,
    split_utf8: d.split_utf8,
  })
}

// ---------------------------------------------------------------------------
// G-enc: CBOR encoders

#[derive(Clone, Copy, Debug)]
pub struct EncOpts {
  /// probability (0..=100) that a container/string is written with indefinite length
  pub indef_pct: u8,
  /// probability that a head is widened to a non-minimal width
  pub widen_pct: u8,
  /// float width: 0 = shortest value-preserving, 1 = always f64, 2 = random value-preserving
  pub float_mode: u8,
  /// probability that an indefinite string is split in several chunks
  pub chunk_pct: u8,
}

pub const CANON: EncOpts = EncOpts {
  indef_pct: 0,
  widen_pct: 0,
  float_mode: 0,
  chunk_pct: 0,
};

pub fn head(out: &mut Vec<u8>, mt: u8, n: u64, widen: u8) {
  // widen: 0 minimal; k>0: at least that width class (1=1 byte arg, 2=2, 3=4, 4=8)
  let min_class = if n < 24 {
    0
  } else if n < 0x100 {
    1
  } else if n < 0x10000 {
    2
  } else if n < 0x1_0000_0000 {
    3
  } else {
    4
  };
  let class = min_class.max(widen.min(4));
  match class {
    0 => out.push((mt << 5) | n as u8),
    1 => {
      out.push((mt << 5) | 24);
      out.push(n as u8);
    }
    2 => {
      out.push((mt << 5) | 25);
      out.extend_from_slice(&(n as u16).to_be_bytes());
    }
    3 => {
      out.push((mt << 5) | 26);
      out.extend_from_slice(&(n as u32).to_be_bytes());
    }
    _ => {
      out.push((mt << 5) | 27);
      out.extend_from_slice(&n.to_be_bytes());
    }
  }
}

pub fn f64_to_f16_exact(f: f64) -> Option<u16> {
  // try all: convert via f32 and check a table-free round trip
  if f.is_nan() {
    return Some(0x7e00);
  }
  let f32v = f as f32;
  if (f32v as f64).to_bits() != f.to_bits() {
    return None;
  }
  let bits = f32v.to_bits();
  let sign = ((bits >> 16) & 0x8000) as u16;
  let exp = ((bits >> 23) & 0xff) as i32;
  let man = bits & 0x7fffff;
  let h: u16 = if exp == 0xff {
    sign | 0x7c00
  } else if exp == 0 && man == 0 {
    sign
  } else {
    let e = exp - 127 + 15;
    if e >= 31 {
      return None;
    }
    if e <= 0 {
      // subnormal half
      if e < -10 {
        return None;
      }
      let full = man | 0x800000;
      let shift = (14 - e) as u32;
      if full & ((1u32 << shift) - 1) != 0 {
        return None;
      }
      sign | (full >> shift) as u16
    } else {
      if man & 0x1fff != 0 {
        return None;
      }
      sign | ((e as u16) << 10) | (man >> 13) as u16
    }
  };
  if f16_to_f64(h).to_bits() == f.to_bits() {
    Some(h)
  } else {
    None
  }
}

pub fn encode(v: &DV, o: &EncOpts, rng: &mut Rng) -> Vec<u8> {
  let mut out = vec![];
  enc(v, o, rng, &mut out);
  out
}

fn widen(o: &EncOpts, rng: &mut Rng) -> u8 {
  if o.widen_pct > 0 && rng.below(100) < o.widen_pct as u64 {
    1 + rng.below(4) as u8
  } else {
    0
  }
}

fn enc_str(mt: u8, b: &[u8], o: &EncOpts, rng: &mut Rng, out: &mut Vec<u8>, is_text: bool) {
  if o.indef_pct > 0 && rng.below(100) < o.indef_pct as u64 {
    out.push((mt << 5) | 31);
    // split on char boundaries for text
    let mut cuts: Vec<usize> = vec![0, b.len()];
    if o.chunk_pct > 0 && b.len() > 1 && rng.below(100) < o.chunk_pct as u64 {
      let n = 1 + rng.usize(3);
      for _ in 0..n {
        let mut c = rng.usize(b.len() + 1);
        if is_text {
          while c < b.len() && (b[c] & 0xC0) == 0x80 {
            c += 1;
          }
        }
        cuts.push(c);
      }
    }
    cuts.sort();
    if rng.chance(1, 8) {
      // empty chunk
      cuts.push(*cuts.last().unwrap());
    }
    for w in cuts.windows(2) {
      if w[0] == w[1] && !rng.chance(1, 4) && b.len() > 0 {
        continue;
      }
      let seg = &b[w[0]..w[1]];
      let wd = widen(o, rng);
      head(out, mt, seg.len() as u64, wd);
      out.extend_from_slice(seg);
    }
    out.push(0xff);
  } else {
    let wd = widen(o, rng);
    head(out, mt, b.len() as u64, wd);
    out.extend_from_slice(b);
  }
}

fn enc(v: &DV, o: &EncOpts, rng: &mut Rng, out: &mut Vec<u8>) {
  match v {
    DV::Int(i) => {
      let wd = widen(o, rng);
      if *i >= 0 {
        head(out, 0, *i as u64, wd);
      } else {
        head(out, 1, (-1 - *i) as u64, wd);
      }
    }
    DV::Float(f) => {
      let mode = if o.float_mode == 2 {
        rng.below(3) as u8
      } else {
        o.float_mode
      };
      let as16 = f64_to_f16_exact(*f);
      let as32 = if f.is_nan() || ((*f as f32) as f64).to_bits() == f.to_bits() {
        Some(*f as f32)
      } else {
        None
      };
      match (mode, as16, as32) {
        (0, Some(h), _) => {
          out.push(0xf9);
          out.extend_from_slice(&h.to_be_bytes());
        }
        (0, None, Some(s)) | (2, _, Some(s)) => {
          out.push(0xfa);
          out.extend_from_slice(&s.to_bits().to_be_bytes());
        }
        _ => {
          out.push(0xfb);
          out.extend_from_slice(&f.to_bits().to_be_bytes());
        }
      }
    }
    DV::Text(t) => enc_str(3, t.as_bytes(), o, rng, out, true),
    DV::Bytes(b) => enc_str(2, b, o, rng, out, false),
    DV::Bool(b) => out.push(if *b { 0xf5 } else { 0xf4 }),
    DV::Null => out.push(0xf6),
    DV::Undefined => out.push(0xf7),
    DV::Simple(n) => {
      if *n < 24 {
        out.push(0xe0 | *n);
      } else {
        out.push(0xf8);
        out.push(*n);
      }
    }
    DV::Array(a) => {
      if o.indef_pct > 0 && rng.below(100) < o.indef_pct as u64 {
        out.push(0x9f);
        for x in a {
          enc(x, o, rng, out);
        }
        out.push(0xff);
      } else {
        let wd = widen(o, rng);
        head(out, 4, a.len() as u64, wd);
        for x in a {
          enc(x, o, rng, out);
        }
      }
    }
    DV::Map(m) => {
      if o.indef_pct > 0 && rng.below(100) < o.indef_pct as u64 {
        out.push(0xbf);
        for (k, x) in m {
          enc(k, o, rng, out);
          enc(x, o, rng, out);
        }
        out.push(0xff);
      } else {
        let wd = widen(o, rng);
        head(out, 5, m.len() as u64, wd);
        for (k, x) in m {
          enc(k, o, rng, out);
          enc(x, o, rng, out);
        }
      }
    }
    DV::Tag(t, x) => {
      let wd = widen(o, rng);
      head(out, 6, *t, wd);
      enc(x, o, rng, out);
    }
  }
}

/// random encoding options
pub fn random_opts(rng: &mut Rng) -> EncOpts {
  match rng.below(5) {
    0 => CANON,
    1 => EncOpts {
      indef_pct: 100,
      widen_pct: 0,
      float_mode: 1,
      chunk_pct: 60,
    },
    2 => EncOpts {
      indef_pct: 0,
      widen_pct: 100,
      float_mode: 1,
      chunk_pct: 0,
    },
    _ => EncOpts {
      indef_pct: rng.below(101) as u8,
      widen_pct: rng.below(101) as u8,
      float_mode: 2,
      chunk_pct: rng.below(101) as u8,
    },
  }
}

// ---------------------------------------------------------------------------
// unconstrained value generator

pub const BOUNDARY_INTS: &[i128] = &[
  0,
  1,
  -1,
  2,
  -2,
  10,
  23,
  24,
  -24,
  -25,
  255,
  256,
  -256,
  -257,
  65535,
  65536,
  -65536,
  -65537,
  4294967295,
  4294967296,
  -4294967296,
  -4294967297,
  9223372036854775807,
  9223372036854775808,
  -9223372036854775808,
  -9223372036854775809,
  18446744073709551615,
  -18446744073709551616,
];

pub const TEXTS: &[&str] = &[
  "", "a", "b", "ab", "abc", "foo", "bar", "é", "日本", "😀", "a/b", "0", "1", "x y", "A", "\"", "\\", "\n", "key", "id",
];

pub fn gen_scalar(rng: &mut Rng, cbor: bool) -> DV {
  let n = if cbor { 11 } else { 6 };
  match rng.below(n) {
    0 => {
      if rng.chance(1, 3) {
        DV::Int(*rng.pick(BOUNDARY_INTS))
      } else {
        DV::Int(rng.range(-30, 300) as i128)
      }
    }
    1 => DV::Float(gen_float(rng, cbor)),
    2 => DV::Text(rng.pick(TEXTS).to_string()),
    3 => DV::Bool(rng.bool()),
    4 => DV::Null,
    5 => DV::Int(rng.range(0, 10) as i128),
    6 => {
      let n = rng.usize(5);
      DV::Bytes((0..n).map(|_| rng.below(256) as u8).collect())
    }
    7 => DV::Undefined,
    8 => {
      let n = rng.below(256) as u8;
      match n {
        20 => DV::Bool(false),
        21 => DV::Bool(true),
        22 => DV::Null,
        23 => DV::Undefined,
        24..=31 => DV::Simple(n + 8),
        _ => DV::Simple(n),
      }
    }
    9 => DV::Bytes(rng.pick(TEXTS).as_bytes().to_vec()),
    _ => DV::Int(*rng.pick(BOUNDARY_INTS)),
  }
}

pub fn gen_float(rng: &mut Rng, cbor: bool) -> f64 {
  const FS: &[f64] = &[
    0.5, 1.5, -1.5, 2.25, 3.14, -0.1, 1e10 + 0.5, 1.0e-5, 65504.5, 1.1, 100.25, -2.75, 1e300, -1e300, 5e-324,
  ];
  const FI: &[f64] = &[0.0, 1.0, -1.0, 2.0, 10.0, 65504.0, 1e20, -0.0];
  let r = rng.below(10);
  if cbor && r == 0 {
    *rng.pick(&[f64::NAN, f64::INFINITY, f64::NEG_INFINITY])
  } else if cbor && r <= 2 {
    *rng.pick(FI)
  } else {
    *rng.pick(FS)
  }
}

pub fn gen_value(rng: &mut Rng, depth: usize, cbor: bool) -> DV {
  if depth == 0 || rng.chance(3, 5) {
    return gen_scalar(rng, cbor);
  }
  match rng.below(if cbor { 4 } else { 2 }) {
    0 => {
      let n = rng.usize(4);
      DV::Array((0..n).map(|_| gen_value(rng, depth - 1, cbor)).collect())
    }
    1 => {
      let n = rng.usize(4);
      let mut m: Vec<(DV, DV)> = vec![];
      for _ in 0..n {
        let k = if cbor && rng.chance(1, 3) {
          gen_scalar(rng, true)
        } else {
          DV::Text(rng.pick(TEXTS).to_string())
        };
        if !cbor && m.iter().any(|(k2, _)| *k2 == k) {
          continue;
        }
        m.push((k, gen_value(rng, depth - 1, cbor)));
      }
      DV::Map(m)
    }
    2 => {
      let t = *rng.pick(&[0u64, 1, 2, 3, 4, 24, 32, 55799, 1 << 32, u64::MAX]);
      DV::Tag(t, Box::new(gen_value(rng, depth - 1, cbor)))
    }
    _ => gen_scalar(rng, cbor),
  }
}
