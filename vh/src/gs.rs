//! Harness-side schema trees (GSchema), a grammar-directed generator (G-schema)
//! and a layout-randomising printer (G-print). The harness knows the derivation
//! of every text it prints; nothing here shares code with the `cddl` crate.

use crate::rng::Rng;

#[derive(Clone, Debug, PartialEq)]
pub enum BK {
  Utf8,
  Hex,
  B64,
}

#[derive(Clone, Debug)]
pub enum GLit {
  Uint(u64),
  /// strictly negative
  Nint(i128),
  Float(f64),
  Text(String),
  Bytes(BK, Vec<u8>),
  /// a literal with a fixed spelling (C07): printed as `.0`, denotes `.1`
  Raw(String, Box<GLit>),
}

impl GLit {
  pub fn value(&self) -> &GLit {
    match self {
      GLit::Raw(_, v) => v.value(),
      x => x,
    }
  }
}

impl PartialEq for GLit {
  fn eq(&self, o: &GLit) -> bool {
    match (self, o) {
      (GLit::Uint(a), GLit::Uint(b)) => a == b,
      (GLit::Nint(a), GLit::Nint(b)) => a == b,
      (GLit::Float(a), GLit::Float(b)) => a.to_bits() == b.to_bits(),
      (GLit::Text(a), GLit::Text(b)) => a == b,
      (GLit::Bytes(k, a), GLit::Bytes(l, b)) => k == l && a == b,
      (GLit::Raw(s, a), GLit::Raw(t, b)) => s == t && a == b,
      _ => false,
    }
  }
}

#[derive(Clone, Debug, PartialEq)]
pub enum GOp {
  Range { incl: bool },
  Ctl(String),
}

#[derive(Clone, Debug, PartialEq)]
pub enum GTagC {
  Lit(u64),
  /// `<type>`: the text between the angle brackets
  Type(String),
}

#[derive(Clone, Debug, PartialEq)]
pub enum GType2 {
  Lit(GLit),
  Name(String, Vec<GType1>),
  Paren(GType),
  Map(GGroup),
  Array(GGroup),
  Unwrap(String, Vec<GType1>),
  EnumInline(GGroup),
  EnumName(String, Vec<GType1>),
  /// #6.n(t) / #6.<t>(t) / #6(t)
  Tag(Option<GTagC>, GType),
  /// #n / #n.m / #n.<t>
  Major(u8, Option<GTagC>),
  Any,
}

#[derive(Clone, Debug, PartialEq)]
pub struct GType1 {
  pub t2: GType2,
  pub op: Option<(GOp, GType2)>,
}

#[derive(Clone, Debug, PartialEq)]
pub struct GType {
  pub choices: Vec<GType1>,
}

#[derive(Clone, Debug, PartialEq)]
pub enum GOcc {
  Opt,
  Star,
  Plus,
  /// n*m with at least one bound present
  Range(Option<u64>, Option<u64>),
}

impl GOcc {
  pub fn bounds(o: &Option<GOcc>) -> (u64, Option<u64>) {
    match o {
      None => (1, Some(1)),
      Some(GOcc::Opt) => (0, Some(1)),
      Some(GOcc::Star) => (0, None),
      Some(GOcc::Plus) => (1, None),
      Some(GOcc::Range(l, u)) => (l.unwrap_or(0), *u),
    }
  }
}

#[derive(Clone, Debug, PartialEq)]
pub enum GKey {
  /// `t1 [^] =>`
  Type1 { t1: GType1, cut: bool },
  /// `name :`
  Bare(String),
  /// `value :`
  Value(GLit),
}

#[derive(Clone, Debug, PartialEq)]
pub enum GEntry {
  Val { occ: Option<GOcc>, key: Option<GKey>, ty: GType },
  Name { occ: Option<GOcc>, name: String, args: Vec<GType1> },
  Inline { occ: Option<GOcc>, group: GGroup },
}

#[derive(Clone, Debug, PartialEq)]
pub struct GChoice {
  pub entries: Vec<GEntry>,
}

#[derive(Clone, Debug, PartialEq)]
pub struct GGroup {
  pub choices: Vec<GChoice>,
}

#[derive(Clone, Debug, PartialEq)]
pub enum Assign {
  Eq,
  /// `/=`
  TypeAlt,
  /// `//=`
  GroupAlt,
}

#[derive(Clone, Debug, PartialEq)]
pub enum GBody {
  Type(GType),
  Group(GEntry),
}

#[derive(Clone, Debug, PartialEq)]
pub struct GRule {
  /// including the socket prefix `$` / `$$`
  pub name: String,
  pub params: Vec<String>,
  pub assign: Assign,
  pub body: GBody,
}

#[derive(Clone, Debug, PartialEq, Default)]
pub struct GS {
  pub rules: Vec<GRule>,
}

// ---------------------------------------------------------------------------
// convenience constructors

pub fn t1(t2: GType2) -> GType1 {
  GType1 { t2, op: None }
}
pub fn ty(t2: GType2) -> GType {
  GType { choices: vec![t1(t2)] }
}
pub fn name(n: &str) -> GType2 {
  GType2::Name(n.to_string(), vec![])
}
pub fn tname(n: &str) -> GType {
  ty(name(n))
}

impl GType {
  pub fn single(&self) -> Option<&GType1> {
    if self.choices.len() == 1 {
      Some(&self.choices[0])
    } else {
      None
    }
  }
}

// ---------------------------------------------------------------------------
// printing

/// How the printer lays out a document.
#[derive(Clone, Debug)]
pub struct Style {
  /// probability (per 100) of a comment at a separator position
  pub comment_pct: u64,
  /// probability (per 100) of a newline at a separator position
  pub newline_pct: u64,
  /// allow an empty separator next to punctuation
  pub tight: bool,
  pub crlf: bool,
  pub tabs: bool,
  /// vary literal spellings (radix, escapes, exponent forms)
  pub vary_literals: bool,
  /// non-ASCII characters in comments
  pub unicode_comments: bool,
  pub commas: u8, // 0 = never, 1 = always, 2 = random (incl. trailing)
}

impl Style {
  pub fn plain() -> Style {
    Style {
      comment_pct: 0,
      newline_pct: 0,
      tight: false,
      crlf: false,
      tabs: false,
      vary_literals: false,
      unicode_comments: false,
      commas: 1,
    }
  }
  pub fn random(rng: &mut Rng, comments: bool) -> Style {
    Style {
      comment_pct: if comments { *rng.pick(&[0, 5, 15, 40]) } else { 0 },
      newline_pct: *rng.pick(&[0, 5, 20]),
      tight: rng.bool(),
      crlf: rng.chance(1, 6),
      tabs: rng.chance(1, 4),
      vary_literals: rng.bool(),
      unicode_comments: rng.bool(),
      commas: rng.below(3) as u8,
    }
  }
}

/// A comment written by the printer: unique id, full text as written (without the line end), byte offset of ';'
#[derive(Clone, Debug)]
pub struct PComment {
  pub id: u32,
  pub text: String,
  pub offset: usize,
}

/// A name written by the printer at a known offset
#[derive(Clone, Debug)]
pub struct PName {
  pub text: String,
  pub offset: usize,
  /// rule index when this is the defining occurrence of a rule name
  pub rule_def: Option<usize>,
}

pub struct Printer<'r> {
  pub out: String,
  pub style: Style,
  pub rng: &'r mut Rng,
  pub comments: Vec<PComment>,
  pub names: Vec<PName>,
  pub rule_starts: Vec<usize>,
  /// some comments start with further semicolons (";; c3 ...")
  pub semicolon_comments: bool,
  next_comment: u32,
}

const COMMENT_WORDS: &[&str] = &["note", "x = y", "\"q\"", "'b'", "; nested", "[1, 2]", "a / b", "=>", "{", ")", "\\", "//", "#6.1(t)", "h'00'"];
const COMMENT_UNI: &[&str] = &["é", "ß→", "日本", "😀", "Ω"];

impl<'r> Printer<'r> {
  pub fn new(rng: &'r mut Rng, style: Style) -> Printer<'r> {
    Printer { out: String::new(), style, rng, comments: vec![], names: vec![], rule_starts: vec![], semicolon_comments: false, next_comment: 0 }
  }

  fn nl(&mut self) {
    if self.style.crlf {
      self.out.push_str("\r\n");
    } else {
      self.out.push('\n');
    }
  }

  fn comment(&mut self) {
    let id = self.next_comment;
    self.next_comment += 1;
    let mut t = if self.semicolon_comments && self.rng.chance(1, 6) { format!(";;{} c{}", if self.rng.bool() { ";" } else { "" }, id) } else { format!("; c{}", id) };
    let n = self.rng.usize(3);
    for _ in 0..n {
      t.push(' ');
      if self.style.unicode_comments && self.rng.chance(1, 3) {
        t.push_str(*self.rng.pick(COMMENT_UNI));
      } else {
        t.push_str(*self.rng.pick(COMMENT_WORDS));
      }
    }
    // a word then the id again so that absorbed code is detectable
    t.push_str(&format!(" e{}", id));
    let offset = self.out.len();
    self.out.push_str(&t);
    self.comments.push(PComment { id, text: t, offset });
    self.nl();
  }

  /// mandatory separation (at least one white-space character or comment)
  pub fn sp(&mut self) {
    let r = self.rng.below(100);
    if r < self.style.comment_pct {
      if self.rng.bool() {
        self.out.push(' ');
      }
      self.comment();
      if self.rng.bool() {
        self.out.push_str("  ");
      }
      if self.rng.chance(1, 4) {
        self.comment();
      }
    } else if r < self.style.comment_pct + self.style.newline_pct {
      self.nl();
      let k = self.rng.usize(5);
      for _ in 0..k {
        self.out.push(' ');
      }
    } else if self.style.tabs && self.rng.chance(1, 5) {
      self.out.push('\t');
    } else {
      self.out.push(' ');
      if self.rng.chance(1, 12) {
        self.out.push(' ');
      }
    }
  }

  /// optional separation (grammar has S here and the neighbours are punctuation)
  pub fn osp(&mut self) {
    if self.style.tight && self.rng.chance(2, 5) {
      return;
    }
    self.sp();
  }

  pub fn tok(&mut self, s: &str) {
    self.out.push_str(s);
  }

  fn ident(&mut self, n: &str, rule_def: Option<usize>) {
    self.names.push(PName { text: n.to_string(), offset: self.out.len(), rule_def });
    self.out.push_str(n);
  }

  pub fn lit(&mut self, l: &GLit) {
    let s = spell_lit(l, self.style.vary_literals, self.rng);
    self.out.push_str(&s);
  }

  fn args(&mut self, a: &[GType1]) {
    if a.is_empty() {
      return;
    }
    self.tok("<");
    for (i, x) in a.iter().enumerate() {
      if i > 0 {
        self.osp_tight();
        self.tok(",");
      }
      self.osp_tight();
      self.type1(x);
    }
    self.osp_tight();
    self.tok(">");
  }

  /// optional separator that may be empty regardless of style (inside <...>)
  fn osp_tight(&mut self) {
    if self.rng.chance(1, 2) {
      return;
    }
    self.sp();
  }

  pub fn type_(&mut self, t: &GType) {
    for (i, c) in t.choices.iter().enumerate() {
      if i > 0 {
        self.sp();
        self.tok("/");
        self.sp();
      }
      self.type1(c);
    }
  }

  pub fn type1(&mut self, t: &GType1) {
    self.type2(&t.t2);
    if let Some((op, rhs)) = &t.op {
      self.sp();
      match op {
        GOp::Range { incl: true } => self.tok(".."),
        GOp::Range { incl: false } => self.tok("..."),
        GOp::Ctl(c) => {
          self.tok(".");
          self.tok(c);
        }
      }
      self.sp();
      self.type2(rhs);
    }
  }

  fn tagc(&mut self, c: &Option<GTagC>) {
    match c {
      None => {}
      Some(GTagC::Lit(n)) => {
        self.tok(".");
        let s = if self.style.vary_literals { spell_uint(*n, self.rng) } else { n.to_string() };
        self.tok(&s);
      }
      Some(GTagC::Type(t)) => {
        self.tok(".<");
        self.tok(t);
        self.tok(">");
      }
    }
  }

  pub fn type2(&mut self, t: &GType2) {
    match t {
      GType2::Lit(l) => self.lit(l),
      GType2::Name(n, a) => {
        self.ident(n, None);
        self.args(a);
      }
      GType2::Paren(t) => {
        self.tok("(");
        self.osp();
        self.type_(t);
        self.osp();
        self.tok(")");
      }
      GType2::Map(g) => {
        self.tok("{");
        self.osp();
        self.group(g);
        self.osp();
        self.tok("}");
      }
      GType2::Array(g) => {
        self.tok("[");
        self.osp();
        self.group(g);
        self.osp();
        self.tok("]");
      }
      GType2::Unwrap(n, a) => {
        self.tok("~");
        if self.rng.chance(1, 6) {
          self.sp();
        }
        self.ident(n, None);
        self.args(a);
      }
      GType2::EnumInline(g) => {
        self.tok("&");
        if self.rng.chance(1, 6) {
          self.sp();
        }
        self.tok("(");
        self.osp();
        self.group(g);
        self.osp();
        self.tok(")");
      }
      GType2::EnumName(n, a) => {
        self.tok("&");
        if self.rng.chance(1, 6) {
          self.sp();
        }
        self.ident(n, None);
        self.args(a);
      }
      GType2::Tag(c, t) => {
        self.tok("#6");
        self.tagc(c);
        self.tok("(");
        self.osp();
        self.type_(t);
        self.osp();
        self.tok(")");
      }
      GType2::Major(mt, c) => {
        self.tok(&format!("#{}", mt));
        self.tagc(c);
      }
      GType2::Any => self.tok("#"),
    }
  }

  fn occ(&mut self, o: &Option<GOcc>) {
    match o {
      None => {}
      Some(GOcc::Opt) => {
        self.tok("?");
        self.sp();
      }
      Some(GOcc::Star) => {
        self.tok("*");
        self.sp();
      }
      Some(GOcc::Plus) => {
        self.tok("+");
        self.sp();
      }
      Some(GOcc::Range(l, u)) => {
        if let Some(l) = l {
          let s = if self.style.vary_literals { spell_uint(*l, self.rng) } else { l.to_string() };
          self.tok(&s);
        }
        self.tok("*");
        if let Some(u) = u {
          let s = if self.style.vary_literals { spell_uint(*u, self.rng) } else { u.to_string() };
          self.tok(&s);
        }
        self.sp();
      }
    }
  }

  pub fn entry(&mut self, e: &GEntry) {
    match e {
      GEntry::Val { occ, key, ty } => {
        self.occ(occ);
        match key {
          None => {}
          Some(GKey::Bare(n)) => {
            self.ident(n, None);
            self.osp();
            self.tok(":");
            self.osp();
          }
          Some(GKey::Value(l)) => {
            self.lit(l);
            self.osp();
            self.tok(":");
            self.osp();
          }
          Some(GKey::Type1 { t1, cut }) => {
            self.type1(t1);
            self.sp();
            if *cut {
              self.tok("^");
              self.osp();
            }
            self.tok("=>");
            self.osp();
          }
        }
        self.type_(ty);
      }
      GEntry::Name { occ, name, args } => {
        self.occ(occ);
        self.ident(name, None);
        self.args(args);
      }
      GEntry::Inline { occ, group } => {
        self.occ(occ);
        self.tok("(");
        self.osp();
        self.group(group);
        self.osp();
        self.tok(")");
      }
    }
  }

  pub fn group(&mut self, g: &GGroup) {
    for (i, c) in g.choices.iter().enumerate() {
      if i > 0 {
        self.sp();
        self.tok("//");
        self.sp();
      }
      let n = c.entries.len();
      for (j, e) in c.entries.iter().enumerate() {
        self.entry(e);
        let last = j + 1 == n;
        let comma = match self.style.commas {
          0 => false,
          1 => !last,
          _ => {
            if last {
              self.rng.chance(1, 5)
            } else {
              self.rng.chance(2, 3)
            }
          }
        };
        if comma {
          self.osp();
          self.tok(",");
        }
        if !last {
          self.sp();
        }
      }
    }
  }

  pub fn rule(&mut self, idx: usize, r: &GRule) {
    self.rule_starts.push(self.out.len());
    self.ident(&r.name, Some(idx));
    if !r.params.is_empty() {
      self.tok("<");
      for (i, p) in r.params.iter().enumerate() {
        if i > 0 {
          self.osp_tight();
          self.tok(",");
        }
        self.osp_tight();
        self.ident(p, None);
      }
      self.osp_tight();
      self.tok(">");
    }
    self.sp();
    self.tok(match r.assign {
      Assign::Eq => "=",
      Assign::TypeAlt => "/=",
      Assign::GroupAlt => "//=",
    });
    self.sp();
    match &r.body {
      GBody::Type(t) => self.type_(t),
      GBody::Group(e) => self.entry(e),
    }
  }

  pub fn doc(&mut self, g: &GS) {
    if self.style.comment_pct > 0 && self.rng.chance(1, 3) {
      self.comment();
    }
    for (i, r) in g.rules.iter().enumerate() {
      self.rule(i, r);
      // rule separation: newline(s), optionally comments
      if self.style.comment_pct > 0 && self.rng.below(100) < self.style.comment_pct {
        self.out.push(' ');
        self.comment();
      } else {
        self.nl();
      }
      if self.rng.chance(1, 4) {
        self.nl();
      }
      if self.style.comment_pct > 0 && self.rng.below(100) < self.style.comment_pct / 2 {
        self.comment();
      }
    }
  }
}

pub fn print_plain(g: &GS) -> String {
  let mut rng = Rng::new(0);
  let mut p = Printer::new(&mut rng, Style::plain());
  p.doc(g);
  p.out
}

pub fn print_type_plain(t: &GType) -> String {
  let mut rng = Rng::new(0);
  let mut p = Printer::new(&mut rng, Style::plain());
  p.type_(t);
  p.out
}

// ---------------------------------------------------------------------------
// literal spelling

pub fn spell_uint(n: u64, rng: &mut Rng) -> String {
  match rng.below(6) {
    0 => {
      let h = if rng.bool() { format!("{:x}", n) } else { format!("{:X}", n) };
      format!("{}{}", if rng.chance(1, 4) { "0X" } else { "0x" }, h)
    }
    1 => format!("{}{:b}", if rng.chance(1, 4) { "0B" } else { "0b" }, n),
    _ => n.to_string(),
  }
}

pub fn spell_text(s: &str, vary: bool, rng: &mut Rng) -> String {
  let mut o = String::from("\"");
  for c in s.chars() {
    let cp = c as u32;
    let must = c == '"' || c == '\\' || cp < 0x20 || cp == 0x7f;
    if must || (vary && rng.chance(1, 6)) {
      match c {
        '"' => o.push_str("\\\""),
        '\\' => o.push_str("\\\\"),
        '\n' if rng.bool() => o.push_str("\\n"),
        '\r' if rng.bool() => o.push_str("\\r"),
        '\t' if rng.bool() => o.push_str("\\t"),
        '\u{8}' if rng.bool() => o.push_str("\\b"),
        '\u{c}' if rng.bool() => o.push_str("\\f"),
        '/' if rng.bool() => o.push_str("\\/"),
        _ => {
          if cp > 0xffff {
            if vary && rng.bool() {
              let v = cp - 0x10000;
              o.push_str(&format!("\\u{:04X}\\u{:04x}", 0xD800 + (v >> 10), 0xDC00 + (v & 0x3ff)));
            } else {
              o.push_str(&format!("\\u{{{:x}}}", cp));
            }
          } else if vary && rng.chance(1, 3) {
            let zeros = "0".repeat(rng.usize(3));
            o.push_str(&format!("\\u{{{}{:X}}}", zeros, cp));
          } else {
            o.push_str(&format!("\\u{:04x}", cp));
          }
        }
      }
    } else {
      o.push(c);
    }
  }
  o.push('"');
  o
}

const B64URL: &[u8] = b"ABCDEFGHIJKLMNOPQRSTUVWXYZabcdefghijklmnopqrstuvwxyz0123456789-_";
const B64STD: &[u8] = b"ABCDEFGHIJKLMNOPQRSTUVWXYZabcdefghijklmnopqrstuvwxyz0123456789+/";

pub fn b64_encode(b: &[u8], std_alphabet: bool, pad: bool) -> String {
  let al = if std_alphabet { B64STD } else { B64URL };
  let mut o = String::new();
  for ch in b.chunks(3) {
    let n = (ch[0] as u32) << 16 | (*ch.get(1).unwrap_or(&0) as u32) << 8 | *ch.get(2).unwrap_or(&0) as u32;
    o.push(al[(n >> 18) as usize & 63] as char);
    o.push(al[(n >> 12) as usize & 63] as char);
    if ch.len() > 1 {
      o.push(al[(n >> 6) as usize & 63] as char);
    } else if pad {
      o.push('=');
    }
    if ch.len() > 2 {
      o.push(al[n as usize & 63] as char);
    } else if pad {
      o.push('=');
    }
  }
  o
}

pub fn spell_float(f: f64, vary: bool, rng: &mut Rng) -> String {
  // Rust's shortest round-trip repr; always contains '.' or 'e' for finite values printed with {:?}
  let base = format!("{:?}", f);
  let mut s = if base.contains('.') || base.contains('e') { base } else { format!("{}.0", base) };
  // CDDL has no leading-dot / trailing-dot forms and needs a digit before 'e'
  if vary {
    match rng.below(4) {
      0 => s = s.replace('e', "E"),
      1 => {
        // exact hexfloat spelling
        if let Some(h) = hexfloat(f) {
          s = h;
        }
      }
      2 => {
        if let Some(p) = s.find('e') {
          // e5 -> e+5
          if !s[p + 1..].starts_with('-') {
            s = format!("{}e+{}", &s[..p], &s[p + 1..]);
          }
        }
      }
      _ => {}
    }
  }
  s
}

/// exact hexfloat spelling of a finite f64 (normal or subnormal), None for 0/inf/nan
pub fn hexfloat(f: f64) -> Option<String> {
  if !f.is_finite() || f == 0.0 {
    return None;
  }
  let bits = f.to_bits();
  let neg = bits >> 63 == 1;
  let exp = ((bits >> 52) & 0x7ff) as i64;
  let frac = bits & ((1u64 << 52) - 1);
  let (lead, e) = if exp == 0 { (0u64, -1022i64) } else { (1u64, exp - 1023) };
  let mut h = format!("{:013x}", frac);
  while h.ends_with('0') && h.len() > 1 {
    h.pop();
  }
  Some(format!("{}0x{}.{}p{}", if neg { "-" } else { "" }, lead, h, e))
}

pub fn spell_lit(l: &GLit, vary: bool, rng: &mut Rng) -> String {
  match l {
    GLit::Raw(s, _) => s.clone(),
    GLit::Uint(n) => {
      if vary {
        spell_uint(*n, rng)
      } else {
        n.to_string()
      }
    }
    GLit::Nint(n) => {
      let m = (-*n) as u128;
      if vary && m <= u64::MAX as u128 {
        format!("-{}", spell_uint(m as u64, rng))
      } else {
        format!("-{}", m)
      }
    }
    GLit::Float(f) => spell_float(*f, vary, rng),
    GLit::Text(s) => spell_text(s, vary, rng),
    GLit::Bytes(BK::Utf8, b) => {
      // generator guarantees printable content without quote / backslash
      format!("'{}'", String::from_utf8_lossy(b))
    }
    GLit::Bytes(BK::Hex, b) => {
      let mut s = String::from("h'");
      for (i, x) in b.iter().enumerate() {
        if vary && i > 0 && rng.chance(1, 4) {
          s.push(' ');
        }
        if vary && rng.bool() {
          s.push_str(&format!("{:02X}", x));
        } else {
          s.push_str(&format!("{:02x}", x));
        }
      }
      s.push('\'');
      s
    }
    GLit::Bytes(BK::B64, b) => {
      let std_al = vary && rng.chance(1, 3);
      let pad = vary && rng.chance(1, 3);
      let mut e = b64_encode(b, std_al, pad);
      if vary && rng.chance(1, 4) && e.len() > 2 {
        let p = 1 + rng.usize(e.len() - 1);
        e.insert(p, ' ');
      }
      format!("b64'{}'", e)
    }
  }
}

// ---------------------------------------------------------------------------
// generation

/// Which constructs the generator may use.
#[derive(Clone, Debug)]
pub struct Profile {
  pub max_rules: usize,
  pub max_depth: usize,
  pub max_entries: usize,
  pub generics: bool,
  pub sockets: bool,
  pub group_rules: bool,
  pub alt_assign: bool,
  pub floats: bool,
  pub bytes: bool,
  pub tags: bool,
  pub major: bool,
  pub unwrap_enum: bool,
  pub ranges: bool,
  /// control operator names that may be used
  pub controls: &'static [&'static str],
  pub cuts: bool,
  pub nontext_keys: bool,
  pub type_keys: bool,
  pub group_choices: bool,
  pub inline_groups: bool,
  pub text_pool: &'static [&'static str],
  /// prelude names usable as leaf types
  pub prelude: &'static [&'static str],
  /// restrict numeric literals to this small pool (None = wide)
  pub small_ints: bool,
  /// syntactic-only mode: references need not resolve / be meaningful
  pub wild_refs: bool,
}

pub const ALL_CONTROLS: &[&str] = &[
  "size", "bits", "regexp", "pcre", "cbor", "cborseq", "within", "and", "lt", "le", "gt", "ge", "eq", "ne", "default", "cat", "det", "plus", "abnf", "abnfb", "feature", "b64u", "b64c",
  "b64u-sloppy", "b64c-sloppy", "hex", "hexlc", "hexuc", "b32", "h32", "b45", "base10", "printf", "json", "join", "iregexp", "bitfield",
];

pub const PRELUDE_ALL: &[&str] = &[
  "any", "uint", "nint", "int", "bstr", "bytes", "tstr", "text", "tdate", "time", "number", "biguint", "bignint", "bigint", "integer", "unsigned", "decfrac", "bigfloat", "eb64url",
  "eb64legacy", "eb16", "encoded-cbor", "uri", "b64url", "b64legacy", "regexp", "mime-message", "cbor-any", "float16", "float32", "float64", "float16-32", "float32-64", "float", "false",
  "true", "bool", "nil", "null", "undefined",
];

pub const TEXT_POOL: &[&str] = &["a", "b", "k", "key", "x y", "", "é", "q\"uote", "back\\slash", "semi;colon", "line\nbreak", "tab\t", "😀", "'single'", "a/b", "0", "null"];
/// the same pool plus texts in which an escaped backslash or quote is directly followed by a letter
/// that would start another escape (`"\\u"`, `"C:\\users\\new"`): used by C03 only
pub const TEXT_POOL_ESC: &[&str] = &["a", "b", "k", "key", "x y", "", "é", "q\"uote", "back\\slash", "semi;colon", "line\nbreak", "tab\t", "😀", "'single'", "a/b", "0", "null", "\\u", "C:\\users\\new", "\\\\uD800", "\\\""];

impl Profile {
  /// the whole grammar, syntactically (parser-level properties)
  pub fn syntax() -> Profile {
    Profile {
      max_rules: 8,
      max_depth: 4,
      max_entries: 5,
      generics: true,
      sockets: true,
      group_rules: true,
      alt_assign: true,
      floats: true,
      bytes: true,
      tags: true,
      major: true,
      unwrap_enum: true,
      ranges: true,
      controls: ALL_CONTROLS,
      cuts: true,
      nontext_keys: true,
      type_keys: true,
      group_choices: true,
      inline_groups: true,
      text_pool: TEXT_POOL,
      prelude: PRELUDE_ALL,
      small_ints: false,
      wild_refs: true,
    }
  }
}

impl Profile {
  /// the core validation fragment of C01 (JSON) / C02 (CBOR adds bytes, tags, major types, non-text keys)
  pub fn core(cbor: bool) -> Profile {
    Profile {
      max_rules: 5,
      max_depth: 3,
      max_entries: 4,
      generics: false,
      sockets: false,
      group_rules: true,
      alt_assign: false,
      floats: true,
      bytes: cbor,
      tags: cbor,
      major: cbor,
      unwrap_enum: false,
      ranges: true,
      controls: &["lt", "le", "gt", "ge", "eq", "ne", "size"],
      cuts: true,
      nontext_keys: cbor,
      type_keys: true,
      group_choices: true,
      inline_groups: true,
      text_pool: &["a", "b", "k", "x y", "", "é"],
      prelude: if cbor { &["int", "uint", "nint", "tstr", "text", "bool", "nil", "null", "float", "number", "any", "true", "false", "bstr", "bytes", "float64", "undefined"] } else { &["int", "uint", "nint", "tstr", "text", "bool", "nil", "null", "float", "number", "any", "true", "false"] },
      small_ints: true,
      wild_refs: false,
    }
  }

  /// the shared JSON/CBOR feature set of C04/C08/C09/C10: core + generics, sockets, unwrap, group-to-choice, .and/.within/.default
  pub fn shared() -> Profile {
    Profile {
      generics: true,
      sockets: true,
      alt_assign: true,
      unwrap_enum: true,
      controls: &["lt", "le", "gt", "ge", "eq", "ne", "size", "and", "within", "default"],
      ..Profile::core(false)
    }
  }
}

/// Per-schema switches (validation workloads): most schemas use only a few construct
/// families, so that a disagreement shows up in a context free of unrelated constructs.
#[derive(Clone, Debug)]
pub struct Features {
  pub map_occ_multi: bool,
  pub controls: bool,
  pub ranges: bool,
  pub neg_ranges: bool,
  pub tables: bool,
  pub table_mix: bool,
  pub map_grpchoice: bool,
  pub bare_prelude_keys: bool,
  pub text_lit_types: bool,
  pub map_inline: bool,
  pub empty_choices: bool,
}

impl Features {
  pub fn all() -> Features {
    Features { map_occ_multi: true, controls: true, ranges: true, neg_ranges: true, tables: true, table_mix: true, map_grpchoice: true, bare_prelude_keys: true, text_lit_types: true, map_inline: true, empty_choices: true }
  }
  pub fn random(rng: &mut Rng) -> Features {
    Features {
      map_occ_multi: rng.chance(1, 4),
      controls: rng.chance(1, 3),
      ranges: rng.chance(1, 2),
      neg_ranges: rng.chance(1, 3),
      tables: rng.chance(1, 2),
      table_mix: rng.chance(1, 4),
      map_grpchoice: rng.chance(1, 4),
      bare_prelude_keys: rng.chance(1, 10),
      text_lit_types: rng.chance(2, 5),
      map_inline: rng.chance(1, 5),
      empty_choices: rng.chance(1, 5),
    }
  }
}

struct Sig {
  name: String,
  arity: usize,
  group: bool,
}

pub struct Gen<'r> {
  pub rng: &'r mut Rng,
  pub p: Profile,
  /// per-document switches that keep rarely-wanted constructs out of most documents
  pub allow_any_hash: bool,
  pub allow_paren_key: bool,
  pub allow_bare_group_rule: bool,
  sigs: Vec<Sig>,
  /// generic parameters in scope
  params: Vec<String>,
  /// index of the rule being generated
  cur: usize,
  /// nesting depth inside array / map / tag constructors (references there are guarded)
  guard: usize,
  pub f: Features,
}

const NAME_POOL: &[&str] = &["r", "foo", "bar-baz", "a.b", "@at", "_u", "x1", "T", "my-type", "n$x", "q.r-s", "zz9", "Item", "node", "leaf", "v-1.2"];

impl<'r> Gen<'r> {
  pub fn new(rng: &'r mut Rng, p: Profile) -> Gen<'r> {
    let allow_any_hash = rng.chance(1, 4);
    let allow_paren_key = rng.chance(1, 6);
    let allow_bare_group_rule = rng.chance(1, 8);
    let f = if p.wild_refs { Features::all() } else { Features::random(rng) };
    Gen { rng, p, allow_any_hash, allow_paren_key, allow_bare_group_rule, sigs: vec![], params: vec![], cur: 0, guard: 0, f }
  }

  fn lit_uint(&mut self) -> u64 {
    if self.p.small_ints {
      return self.rng.below(6);
    }
    match self.rng.below(10) {
      0 => *self.rng.pick(&[0u64, 1, 23, 24, 255, 256, 65535, 65536, 4294967295, 4294967296, 9223372036854775807, 9223372036854775808, 18446744073709551615]),
      1 => self.rng.next_u64(),
      _ => self.rng.below(20),
    }
  }

  pub fn lit(&mut self, allow_text: bool) -> GLit {
    let mut w = vec![6u32, 3];
    w.push(if self.p.floats { 3 } else { 0 });
    w.push(if allow_text { 5 } else { 0 });
    w.push(if self.p.bytes { 2 } else { 0 });
    match self.rng.weighted(&w) {
      0 => GLit::Uint(self.lit_uint()),
      1 => {
        if self.p.small_ints {
          GLit::Nint(-(1 + self.rng.below(5) as i128))
        } else {
          match self.rng.below(8) {
            0 => GLit::Nint(*self.rng.pick(&[-1i128, -24, -25, -256, -257, -9223372036854775807, -9223372036854775808])),
            _ => GLit::Nint(-(1 + self.rng.below(30) as i128)),
          }
        }
      }
      2 => GLit::Float(self.float()),
      3 => GLit::Text(self.rng.pick(self.p.text_pool).to_string()),
      _ => self.bytes_lit(),
    }
  }

  fn float(&mut self) -> f64 {
    if self.p.small_ints {
      // non-integral, so that JSON can tell it from an integer
      return self.rng.range(-6, 6) as f64 + *self.rng.pick(&[0.5, 0.25, 0.75]);
    }
    match self.rng.below(8) {
      0 => *self.rng.pick(&[0.0, 1.0, -1.0, 1.5, -0.5, 1e10, 1e-7, 3.141592653589793, 1e300, 5e-324, 1.7976931348623157e308, 0.1, 100.0, 65504.0]),
      1 => f64::from_bits(self.rng.next_u64() & 0x7fefffffffffffff | (self.rng.next_u64() & (1 << 63))),
      2 => (self.rng.range(-50, 50) as f64),
      _ => (self.rng.range(-5000, 5000) as f64) / 8.0,
    }
  }

  fn bytes_lit(&mut self) -> GLit {
    let n = self.rng.usize(6);
    match self.rng.below(3) {
      0 => {
        let pool = b"abcXYZ019 ;,:=/#[](){}<>\"~&^*+?.-_$@!%|";
        let b: Vec<u8> = (0..n).map(|_| *self.rng.pick(pool)).collect();
        GLit::Bytes(BK::Utf8, b)
      }
      1 => GLit::Bytes(BK::Hex, (0..n).map(|_| self.rng.below(256) as u8).collect()),
      _ => GLit::Bytes(BK::B64, (0..n).map(|_| self.rng.below(256) as u8).collect()),
    }
  }

  fn occ(&mut self) -> Option<GOcc> {
    match self.rng.below(10) {
      0 | 1 | 2 | 3 => None,
      4 => Some(GOcc::Opt),
      5 => Some(GOcc::Star),
      6 => Some(GOcc::Plus),
      _ => {
        let l = if self.rng.bool() { Some(self.rng.below(4)) } else { None };
        let u = if self.rng.bool() || l.is_none() { Some(l.unwrap_or(0) + self.rng.below(4)) } else { None };
        Some(GOcc::Range(l, u))
      }
    }
  }

  /// pick a reference to a rule of the wanted kind (group or type); None when there is none
  fn pick_rule(&mut self, group: bool) -> Option<(String, usize)> {
    let c: Vec<usize> = (0..self.sigs.len())
      .filter(|i| self.sigs[*i].group == group)
      .filter(|i| self.p.wild_refs || *i > self.cur || (!group && self.guard > 0))
      .collect();
    if c.is_empty() {
      return None;
    }
    let i = *self.rng.pick(&c);
    Some((self.sigs[i].name.clone(), self.sigs[i].arity))
  }

  fn gargs(&mut self, n: usize, d: usize) -> Vec<GType1> {
    (0..n).map(|_| self.type1(d.saturating_sub(1))).collect()
  }

  fn name_ref(&mut self, d: usize) -> GType2 {
    // generic parameter, rule reference or prelude name
    if !self.params.is_empty() && self.rng.chance(1, 3) {
      return GType2::Name(self.rng.pick(&self.params).clone(), vec![]);
    }
    if self.rng.chance(1, 2) {
      if let Some((n, a)) = self.pick_rule(false) {
        let args = self.gargs(a, d);
        return GType2::Name(n, args);
      }
    }
    GType2::Name(self.rng.pick(self.p.prelude).to_string(), vec![])
  }

  pub fn type2(&mut self, d: usize) -> GType2 {
    let leaf = d == 0;
    let w: Vec<u32> = vec![
      5,                                                    // literal
      8,                                                    // name
      if leaf { 0 } else { 2 },                             // paren
      if leaf { 0 } else { 5 },                             // map
      if leaf { 0 } else { 5 },                             // array
      if self.p.unwrap_enum { 1 } else { 0 },               // unwrap
      if self.p.unwrap_enum && !leaf { 1 } else { 0 },      // enum inline
      if self.p.unwrap_enum { 1 } else { 0 },               // enum name
      if self.p.tags && !leaf { 2 } else { 0 },             // tag
      if self.p.major { 1 } else { 0 },                     // major
      if self.allow_any_hash { 1 } else { 0 },              // any
    ];
    match self.rng.weighted(&w) {
      0 => {
        let allow_text = self.f.text_lit_types;
        GType2::Lit(self.lit(allow_text))
      }
      1 => self.name_ref(d),
      2 => GType2::Paren(self.type_(d - 1)),
      3 => {
        self.guard += 1;
        let g = self.group(d - 1, true);
        self.guard -= 1;
        GType2::Map(g)
      }
      4 => {
        self.guard += 1;
        let g = self.group(d - 1, false);
        self.guard -= 1;
        GType2::Array(g)
      }
      5 => match self.pick_rule(false) {
        Some((n, a)) => {
          let args = self.gargs(a, d);
          GType2::Unwrap(n, args)
        }
        None if self.p.wild_refs => GType2::Unwrap("uu".into(), vec![]),
        None => GType2::Name(self.rng.pick(self.p.prelude).to_string(), vec![]),
      },
      6 => GType2::EnumInline(self.group(d - 1, true)),
      7 => match self.pick_rule(true) {
        Some((n, a)) => {
          let args = self.gargs(a, d);
          GType2::EnumName(n, args)
        }
        None if self.p.wild_refs => GType2::EnumName("gg".into(), vec![]),
        None => GType2::Name(self.rng.pick(self.p.prelude).to_string(), vec![]),
      },
      8 => {
        let c = match self.rng.below(5) {
          0 => None,
          1 if !self.params.is_empty() => Some(GTagC::Type(self.rng.pick(&self.params).clone())),
          _ => Some(GTagC::Lit(*self.rng.pick(&[0u64, 1, 2, 24, 32, 255, 256, 55799, 65536, 4294967296, 18446744073709551615]))),
        };
        self.guard += 1;
        let t = self.type_(d - 1);
        self.guard -= 1;
        GType2::Tag(c, t)
      }
      9 => {
        let mt = self.rng.below(8) as u8;
        if mt == 6 {
          // "#6" without parentheses is not in the RFC 9682 grammar
          return GType2::Major(7, Some(GTagC::Lit(self.rng.below(32))));
        }
        let c = match self.rng.below(3) {
          0 => None,
          _ => Some(GTagC::Lit(if mt == 7 { *self.rng.pick(&[0u64, 19, 20, 21, 22, 23, 25, 26, 27, 32, 255]) } else { self.rng.below(30) })),
        };
        GType2::Major(mt, c)
      }
      _ => GType2::Any,
    }
  }

  /// ranges and controls that mean something (validation workloads)
  fn type1_semantic(&mut self, d: usize) -> Option<GType1> {
    let r = self.rng.below(12);
    if r == 0 && self.p.ranges && self.f.ranges {
      let lo = if self.f.neg_ranges { self.rng.range(-4, 6) } else { self.rng.range(0, 6) };
      let hi = lo + self.rng.range(0, 6);
      let mk = |n: i64| if n >= 0 { GLit::Uint(n as u64) } else { GLit::Nint(n as i128) };
      if self.p.floats && self.rng.chance(1, 4) {
        return Some(GType1 { t2: GType2::Lit(GLit::Float(lo as f64 + 0.5)), op: Some((GOp::Range { incl: self.rng.bool() }, GType2::Lit(GLit::Float(hi as f64 + 1.25)))) });
      }
      return Some(GType1 { t2: GType2::Lit(mk(lo)), op: Some((GOp::Range { incl: self.rng.bool() }, GType2::Lit(mk(hi)))) });
    }
    if r == 1 && !self.p.controls.is_empty() && self.f.controls {
      let c = self.rng.pick(self.p.controls).to_string();
      let num = |g: &mut Gen| {
        let n = g.rng.range(-3, 6);
        if n >= 0 {
          GLit::Uint(n as u64)
        } else {
          GLit::Nint(n as i128)
        }
      };
      let (target, rhs): (GType2, GType2) = match c.as_str() {
        "lt" | "le" | "gt" | "ge" => (name(self.rng.pick_str(&["int", "uint", "number", "int"])), GType2::Lit(num(self))),
        "eq" | "ne" => {
          if self.rng.bool() {
            (name(self.rng.pick_str(&["int", "uint", "any", "number"])), GType2::Lit(num(self)))
          } else {
            (name(self.rng.pick_str(&["tstr", "text", "any"])), GType2::Lit(GLit::Text(self.rng.pick(self.p.text_pool).to_string())))
          }
        }
        "size" => {
          let t = name(if self.p.bytes { self.rng.pick_str(&["tstr", "bstr", "uint", "tstr"]) } else { self.rng.pick_str(&["tstr", "uint", "tstr"]) });
          let n = self.rng.below(4);
          if self.rng.chance(1, 3) && t != name("uint") {
            (t, GType2::Paren(GType { choices: vec![GType1 { t2: GType2::Lit(GLit::Uint(n)), op: Some((GOp::Range { incl: self.rng.bool() }, GType2::Lit(GLit::Uint(n + 1 + self.rng.below(3))))) }] }))
          } else {
            (t, GType2::Lit(GLit::Uint(n)))
          }
        }
        "and" | "within" => {
          let a = self.type2(d.min(1));
          let b2 = self.type2(d.min(1));
          (a, b2)
        }
        "default" => (self.type2(d.min(1)), GType2::Lit(GLit::Uint(1))),
        _ => return None,
      };
      return Some(GType1 { t2: target, op: Some((GOp::Ctl(c), rhs)) });
    }
    None
  }

  pub fn type1(&mut self, d: usize) -> GType1 {
    if !self.p.wild_refs {
      if let Some(t) = self.type1_semantic(d) {
        return t;
      }
      return GType1 { t2: self.type2(d), op: None };
    }
    let t2 = self.type2(d);
    let r = self.rng.below(10);
    if r == 0 && self.p.ranges {
      // range: bounds are literals or names
      let lo = if self.rng.chance(3, 4) { GType2::Lit(self.num_lit()) } else { self.name_ref(0) };
      let hi = if self.rng.chance(3, 4) { GType2::Lit(self.num_lit()) } else { self.name_ref(0) };
      return GType1 { t2: lo, op: Some((GOp::Range { incl: self.rng.bool() }, hi)) };
    }
    if r == 1 && !self.p.controls.is_empty() {
      let c = self.rng.pick(self.p.controls).to_string();
      let rhs = self.type2(d.min(1));
      return GType1 { t2, op: Some((GOp::Ctl(c), rhs)) };
    }
    GType1 { t2, op: None }
  }

  fn num_lit(&mut self) -> GLit {
    loop {
      let l = self.lit(false);
      if matches!(l, GLit::Uint(_) | GLit::Nint(_) | GLit::Float(_)) {
        return l;
      }
    }
  }

  pub fn type_(&mut self, d: usize) -> GType {
    let n = match self.rng.below(10) {
      0..=5 => 1,
      6 | 7 => 2,
      8 => 3,
      _ => 4,
    };
    GType { choices: (0..n).map(|_| self.type1(d)).collect() }
  }

  fn key(&mut self, d: usize, map: bool) -> Option<GKey> {
    let r = self.rng.below(10);
    if !map && r < 6 {
      return None;
    }
    let r = if r >= 7 && !self.f.tables { self.rng.below(7) } else { r };
    match r {
      0..=4 => {
        let pool: &[&str] = if self.f.bare_prelude_keys { &["a", "b", "k", "int", "tstr", "x-y"] } else { &["a", "b", "k", "key", "x-y", "n.1", "_z"] };
        Some(GKey::Bare(self.rng.pick_str(pool).to_string()))
      }
      5 | 6 => {
        let l = if self.p.nontext_keys { self.lit(true) } else { GLit::Text(self.rng.pick(self.p.text_pool).to_string()) };
        Some(GKey::Value(l))
      }
      _ => {
        if !self.p.type_keys {
          return Some(GKey::Value(GLit::Text(self.rng.pick(self.p.text_pool).to_string())));
        }
        let mut t1 = if self.p.wild_refs {
          self.type1(d.min(1))
        } else {
          // key domains of tables: scalar prelude types or literal keys
          let doms: &[&str] = if self.p.nontext_keys { &["tstr", "uint", "int", "tstr", "bstr", "nint"] } else { &["tstr", "text", "tstr"] };
          GType1 { t2: name(self.rng.pick_str(doms)), op: None }
        };
        if !self.allow_paren_key {
          if let GType2::Paren(_) = t1.t2 {
            t1.t2 = GType2::Name("tstr".into(), vec![]);
          }
        }
        Some(GKey::Type1 { t1, cut: self.p.cuts && self.rng.chance(1, 3) })
      }
    }
  }

  pub fn entry(&mut self, d: usize, map: bool) -> GEntry {
    let r = self.rng.below(12);
    if r == 0 && self.p.inline_groups && d > 0 && (!map || self.f.map_inline) {
      return GEntry::Inline { occ: self.occ(), group: self.group(d - 1, map) };
    }
    if r == 1 && self.p.group_rules {
      if let Some((n, a)) = self.pick_rule(true) {
        let args = self.gargs(a, d);
        return GEntry::Name { occ: self.occ(), name: n, args };
      }
    }
    let mut occ = self.occ();
    if map && !self.f.map_occ_multi && !matches!(occ, None | Some(GOcc::Opt)) {
      occ = if self.rng.bool() { Some(GOcc::Opt) } else { None };
    }
    let key = self.key(d, map);
    // a table member keeps its multi-occurrence (that is what makes it a table)
    if map && matches!(key, Some(GKey::Type1 { .. })) && occ.is_none() && self.rng.chance(2, 3) {
      occ = Some(GOcc::Star);
    }
    let mut ty = self.type_(d);
    if key.is_none() {
      // a keyless entry that starts with "(" is an inline group for the parser
      if let GType2::Paren(_) = ty.choices[0].t2 {
        if ty.choices[0].op.is_none() {
          ty.choices[0].t2 = GType2::Name("int".into(), vec![]);
        } else {
          ty.choices[0] = t1(GType2::Name("int".into(), vec![]));
        }
      }
    }
    GEntry::Val { occ, key, ty }
  }

  pub fn group(&mut self, d: usize, map: bool) -> GGroup {
    let nc = if self.p.group_choices && (!map || self.f.map_grpchoice) {
      match self.rng.below(10) {
        0..=6 => 1,
        7 => 2,
        8 => 3,
        _ => 4,
      }
    } else {
      1
    };
    let mut choices = vec![];
    for _ in 0..nc {
      let ne = match self.rng.below(10) {
        0 => 0,
        1..=4 => 1,
        5 | 6 => 2,
        7 => 3,
        8 => 4,
        _ => self.p.max_entries,
      }
      .min(self.p.max_entries);
      let ne = if ne == 0 && !self.f.empty_choices && nc > 1 { 1 } else { ne };
      let mut entries: Vec<GEntry> = (0..ne).map(|_| self.entry(d, map)).collect();
      if map && !self.f.table_mix && entries.len() > 1 && entries.iter().any(|e| matches!(e, GEntry::Val { key: Some(GKey::Type1 { .. }), .. })) {
        // a table stands alone unless mixing is switched on for this schema
        entries.retain(|e| matches!(e, GEntry::Val { key: Some(GKey::Type1 { .. }), .. }));
        entries.truncate(1);
      }
      choices.push(GChoice { entries });
    }
    GGroup { choices }
  }

  /// a group-rule body that cannot be mistaken for a type
  fn group_rule_entry(&mut self, d: usize) -> GEntry {
    loop {
      let m = self.rng.bool();
      let e = self.entry(d, m);
      if group_body_unambiguous(&e) {
        // `name = key: type` / `name = occur type` without parentheses is derivable but rare in practice
        if !matches!(e, GEntry::Inline { occ: None, .. }) && !(self.allow_bare_group_rule && self.rng.chance(1, 2)) {
          return GEntry::Inline { occ: None, group: GGroup { choices: vec![GChoice { entries: vec![e] }] } };
        }
        return e;
      }
    }
  }

  pub fn schema(&mut self) -> GS {
    let n = 1 + self.rng.usize(self.p.max_rules);
    // signatures first so that bodies can refer forwards and backwards
    let mut used: Vec<String> = vec![];
    for i in 0..n {
      let group = self.p.group_rules && i > 0 && self.rng.chance(1, 4);
      let mut nm;
      loop {
        nm = format!("{}{}", self.rng.pick(NAME_POOL), if self.rng.bool() { format!("{}", self.rng.below(10)) } else { String::new() });
        if self.p.sockets && i > 0 && self.rng.chance(1, 8) {
          nm = format!("{}{}", if group { "$$" } else { "$" }, nm);
        }
        if !used.contains(&nm) && !PRELUDE_ALL.contains(&nm.as_str()) {
          break;
        }
      }
      used.push(nm.clone());
      let arity = if self.p.generics && i > 0 && !nm.starts_with('$') && self.rng.chance(1, 5) { 1 + self.rng.usize(2) } else { 0 };
      self.sigs.push(Sig { name: nm, arity, group });
    }
    let mut rules = vec![];
    for i in 0..n {
      self.cur = i;
      let (nm, arity, group) = (self.sigs[i].name.clone(), self.sigs[i].arity, self.sigs[i].group);
      self.params = (0..arity).map(|k| ["t", "u", "K", "v-1"][(k + self.rng.usize(2)) % 4].to_string()).collect();
      self.params.dedup();
      if self.params.len() < arity {
        self.params = (0..arity).map(|k| format!("p{}", k)).collect();
      }
      let d = 1 + self.rng.usize(self.p.max_depth);
      let socket = nm.starts_with('$');
      let body = if group { GBody::Group(self.group_rule_entry(d)) } else { GBody::Type(self.type_(d)) };
      let assign = if socket {
        if group {
          Assign::GroupAlt
        } else {
          Assign::TypeAlt
        }
      } else {
        Assign::Eq
      };
      rules.push(GRule { name: nm.clone(), params: self.params.clone(), assign, body });
      // increments
      if self.p.alt_assign && self.rng.chance(1, 6) {
        let k = 1 + self.rng.usize(2);
        for _ in 0..k {
          let body = if group { GBody::Group(self.group_rule_entry(d)) } else { GBody::Type(self.type_(d)) };
          rules.push(GRule { name: nm.clone(), params: self.params.clone(), assign: if group { Assign::GroupAlt } else { Assign::TypeAlt }, body });
        }
      }
    }
    self.params.clear();
    // increments may appear anywhere after the base: shuffle them forward a little
    GS { rules }
  }
}

// ---------------------------------------------------------------------------
// shrinking: one-step simplifications of a schema tree (deterministic order, big steps first)

fn int2() -> GType2 {
  GType2::Name("int".into(), vec![])
}

fn sh_lit(l: &GLit) -> Vec<GLit> {
  let mut v = vec![];
  match l {
    GLit::Raw(_, x) => v.push((**x).clone()),
    GLit::Uint(n) => {
      if *n > 1 {
        v.push(GLit::Uint(1));
        v.push(GLit::Uint(n / 2));
      }
    }
    GLit::Nint(n) => {
      if *n < -1 {
        v.push(GLit::Nint(-1));
        v.push(GLit::Nint(n / 2));
      }
    }
    GLit::Float(f) => {
      if *f != 1.5 {
        v.push(GLit::Float(1.5));
      }
    }
    GLit::Text(s) => {
      let cs: Vec<char> = s.chars().collect();
      if cs.len() > 1 {
        for i in 0..cs.len() {
          let mut c = cs.clone();
          c.remove(i);
          v.push(GLit::Text(c.into_iter().collect()));
        }
      } else if cs.len() == 1 && cs[0] != 'a' {
        v.push(GLit::Text("a".into()));
        v.push(GLit::Text("".into()));
      }
    }
    GLit::Bytes(k, b) => {
      if !b.is_empty() {
        v.push(GLit::Bytes(k.clone(), vec![]));
        v.push(GLit::Bytes(k.clone(), b[1..].to_vec()));
      }
    }
  }
  v
}

fn sh_t2(t: &GType2) -> Vec<GType2> {
  let mut v = vec![];
  if *t != int2() {
    v.push(int2());
  }
  match t {
    GType2::Lit(l) => v.extend(sh_lit(l).into_iter().map(GType2::Lit)),
    GType2::Name(n, a) | GType2::Unwrap(n, a) | GType2::EnumName(n, a) => {
      let mk = |n: &str, a: Vec<GType1>| match t {
        GType2::Name(..) => GType2::Name(n.to_string(), a),
        GType2::Unwrap(..) => GType2::Unwrap(n.to_string(), a),
        _ => GType2::EnumName(n.to_string(), a),
      };
      if !matches!(t, GType2::Name(..)) {
        v.push(GType2::Name(n.clone(), a.clone()));
      }
      if !a.is_empty() {
        v.push(mk(n, vec![]));
        for i in 0..a.len() {
          for x in sh_t1(&a[i]) {
            let mut b = a.clone();
            b[i] = x;
            v.push(mk(n, b));
          }
        }
      }
    }
    GType2::Paren(t) => {
      for c in &t.choices {
        if c.op.is_none() {
          v.push(c.t2.clone());
        }
      }
      v.extend(sh_t(t).into_iter().map(GType2::Paren));
    }
    GType2::Map(g) => v.extend(sh_g(g).into_iter().map(GType2::Map)),
    GType2::Array(g) => v.extend(sh_g(g).into_iter().map(GType2::Array)),
    GType2::EnumInline(g) => v.extend(sh_g(g).into_iter().map(GType2::EnumInline)),
    GType2::Tag(c, t) => {
      for ch in &t.choices {
        if ch.op.is_none() {
          v.push(ch.t2.clone());
        }
      }
      if c.is_some() {
        v.push(GType2::Tag(None, t.clone()));
        if *c != Some(GTagC::Lit(1)) {
          v.push(GType2::Tag(Some(GTagC::Lit(1)), t.clone()));
        }
      }
      v.extend(sh_t(t).into_iter().map(|x| GType2::Tag(c.clone(), x)));
    }
    GType2::Major(m, c) => {
      if c.is_some() {
        v.push(GType2::Major(*m, None));
      }
    }
    GType2::Any => {}
  }
  v
}

fn sh_t1(t: &GType1) -> Vec<GType1> {
  let mut v = vec![];
  match &t.op {
    Some((op, r)) => {
      v.push(t1(t.t2.clone()));
      v.push(t1(r.clone()));
      for x in sh_t2(&t.t2) {
        v.push(GType1 { t2: x, op: Some((op.clone(), r.clone())) });
      }
      for x in sh_t2(r) {
        v.push(GType1 { t2: t.t2.clone(), op: Some((op.clone(), x)) });
      }
    }
    None => v.extend(sh_t2(&t.t2).into_iter().map(t1)),
  }
  v
}

fn sh_t(t: &GType) -> Vec<GType> {
  let mut v = vec![];
  if t.choices.len() > 1 {
    for i in 0..t.choices.len() {
      let mut c = t.choices.clone();
      c.remove(i);
      v.push(GType { choices: c });
    }
  }
  for i in 0..t.choices.len() {
    for x in sh_t1(&t.choices[i]) {
      let mut c = t.choices.clone();
      c[i] = x;
      v.push(GType { choices: c });
    }
  }
  v
}

fn sh_occ(o: &Option<GOcc>) -> Vec<Option<GOcc>> {
  match o {
    None => vec![],
    Some(GOcc::Range(l, u)) => {
      let mut v = vec![None, Some(GOcc::Star)];
      if l.is_some() && u.is_some() {
        v.push(Some(GOcc::Range(*l, None)));
        v.push(Some(GOcc::Range(None, *u)));
      }
      v
    }
    Some(_) => vec![None],
  }
}

fn sh_e(e: &GEntry) -> Vec<GEntry> {
  let mut v = vec![];
  match e {
    GEntry::Val { occ, key, ty } => {
      for o in sh_occ(occ) {
        v.push(GEntry::Val { occ: o, key: key.clone(), ty: ty.clone() });
      }
      if let Some(k) = key {
        if !matches!(ty.choices[0].t2, GType2::Paren(_)) {
          v.push(GEntry::Val { occ: occ.clone(), key: None, ty: ty.clone() });
        }
        match k {
          GKey::Type1 { t1: k1, cut } => {
            if *cut {
              v.push(GEntry::Val { occ: occ.clone(), key: Some(GKey::Type1 { t1: k1.clone(), cut: false }), ty: ty.clone() });
            }
            for x in sh_t1(k1) {
              v.push(GEntry::Val { occ: occ.clone(), key: Some(GKey::Type1 { t1: x, cut: *cut }), ty: ty.clone() });
            }
          }
          GKey::Value(l) => {
            for x in sh_lit(l) {
              v.push(GEntry::Val { occ: occ.clone(), key: Some(GKey::Value(x)), ty: ty.clone() });
            }
          }
          GKey::Bare(n) => {
            if n != "k" {
              v.push(GEntry::Val { occ: occ.clone(), key: Some(GKey::Bare("k".into())), ty: ty.clone() });
            }
          }
        }
      }
      for x in sh_t(ty) {
        // keep the "keyless entry does not start with a parenthesis" invariant
        if key.is_none() {
          if let GType2::Paren(_) = x.choices[0].t2 {
            continue;
          }
        }
        v.push(GEntry::Val { occ: occ.clone(), key: key.clone(), ty: x });
      }
    }
    GEntry::Name { occ, name, args } => {
      for o in sh_occ(occ) {
        v.push(GEntry::Name { occ: o, name: name.clone(), args: args.clone() });
      }
      if !args.is_empty() {
        v.push(GEntry::Name { occ: occ.clone(), name: name.clone(), args: vec![] });
      }
      v.push(GEntry::Val { occ: occ.clone(), key: None, ty: ty(int2()) });
    }
    GEntry::Inline { occ, group } => {
      for c in &group.choices {
        for en in &c.entries {
          v.push(en.clone());
        }
      }
      for o in sh_occ(occ) {
        v.push(GEntry::Inline { occ: o, group: group.clone() });
      }
      for x in sh_g(group) {
        v.push(GEntry::Inline { occ: occ.clone(), group: x });
      }
    }
  }
  v
}

fn sh_g(g: &GGroup) -> Vec<GGroup> {
  let mut v = vec![];
  if g.choices.len() > 1 {
    for i in 0..g.choices.len() {
      let mut c = g.choices.clone();
      c.remove(i);
      v.push(GGroup { choices: c });
    }
  }
  for i in 0..g.choices.len() {
    let es = &g.choices[i].entries;
    for j in 0..es.len() {
      let mut c = g.choices.clone();
      c[i].entries.remove(j);
      v.push(GGroup { choices: c });
    }
    for j in 0..es.len() {
      for x in sh_e(&es[j]) {
        let mut c = g.choices.clone();
        c[i].entries[j] = x;
        v.push(GGroup { choices: c });
      }
    }
  }
  v
}

/// a group-rule body that the RFC grammar cannot also read as a type
pub fn group_body_unambiguous(e: &GEntry) -> bool {
  match e {
    GEntry::Val { occ, key, .. } => key.is_some() || occ.is_some(),
    GEntry::Name { occ, .. } => occ.is_some(),
    GEntry::Inline { occ, group } => {
      occ.is_some()
        || group.choices.len() > 1
        || group.choices[0].entries.len() != 1
        || match &group.choices[0].entries[0] {
          GEntry::Val { occ, key, .. } => key.is_some() || occ.is_some(),
          GEntry::Name { occ, .. } => occ.is_some(),
          GEntry::Inline { .. } => false,
        }
    }
  }
}

/// one-step simplifications of a whole document. `keep_first` protects rule 0 from removal.
pub fn shrink_steps(g: &GS, keep_first: bool) -> Vec<GS> {
  let mut v = vec![];
  if g.rules.len() > 1 {
    for i in (if keep_first { 1 } else { 0 })..g.rules.len() {
      let mut r = g.rules.clone();
      r.remove(i);
      v.push(GS { rules: r });
    }
  }
  for i in 0..g.rules.len() {
    let r = &g.rules[i];
    let bodies: Vec<GBody> = match &r.body {
      GBody::Type(t) => sh_t(t).into_iter().map(GBody::Type).collect(),
      GBody::Group(e) => sh_e(e).into_iter().filter(group_body_unambiguous).map(GBody::Group).collect(),
    };
    for b in bodies {
      let mut rs = g.rules.clone();
      rs[i].body = b;
      v.push(GS { rules: rs });
    }
  }
  v
}

/// Greedy delta debugging: repeatedly adopt the first one-step simplification for which `pred` still holds.
pub fn shrink(g: &GS, keep_first: bool, budget: usize, pred: &mut dyn FnMut(&GS) -> bool) -> GS {
  let mut cur = g.clone();
  let mut used = 0;
  'outer: loop {
    for c in shrink_steps(&cur, keep_first) {
      if used >= budget {
        break 'outer;
      }
      used += 1;
      if pred(&c) {
        cur = c;
        continue 'outer;
      }
    }
    break;
  }
  cur
}

// ---------------------------------------------------------------------------
// construct tags (evidence + finding signatures)

use std::collections::BTreeSet;

pub struct Tags(pub BTreeSet<String>, pub Vec<String>, pub String, pub usize);

impl Tags {
  fn add(&mut self, s: &str) {
    self.0.insert(s.to_string());
  }
  fn lit(&mut self, l: &GLit, pos: &str) {
    match l {
      GLit::Raw(_, v) => self.lit(v, pos),
      GLit::Uint(_) => self.add(&format!("lit.uint{}", pos)),
      GLit::Nint(_) => self.add(&format!("lit.nint{}", pos)),
      GLit::Float(f) => {
        self.add(&format!("lit.float{}", pos));
        if f.fract() == 0.0 {
          self.add("lit.float.integral");
        }
      }
      GLit::Text(s) => {
        self.add(&format!("lit.text{}", pos));
        if s.contains('"') {
          self.add("lit.text.quote");
        }
        if s.contains('\\') {
          self.add("lit.text.backslash");
        }
        if s.chars().any(|c| (c as u32) < 0x20) {
          self.add("lit.text.control");
        }
        if !s.is_ascii() {
          self.add("lit.text.nonascii");
        }
      }
      GLit::Bytes(BK::Utf8, _) => self.add(&format!("lit.bytes.utf8{}", pos)),
      GLit::Bytes(BK::Hex, _) => self.add(&format!("lit.bytes.hex{}", pos)),
      GLit::Bytes(BK::B64, _) => self.add(&format!("lit.bytes.b64{}", pos)),
    }
  }
  fn args(&mut self, a: &[GType1]) {
    if !a.is_empty() {
      self.add("generic.args");
    }
    self.3 += 1;
    for x in a {
      self.t1(x);
    }
    if !a.is_empty() || true {
      self.3 -= 1;
    }
  }
  fn tagc(&mut self, c: &Option<GTagC>, what: &str) {
    match c {
      None => self.add(&format!("{}.bare", what)),
      Some(GTagC::Lit(_)) => self.add(&format!("{}.num", what)),
      Some(GTagC::Type(_)) => self.add(&format!("{}.type", what)),
    }
  }
  fn t2(&mut self, t: &GType2) {
    match t {
      GType2::Lit(l) => self.lit(l, ""),
      GType2::Name(n, a) => {
        if n.starts_with('$') {
          self.add("socket.ref");
        }
        if *n == self.2 {
          self.add("rule.recursive");
        }
        if self.3 > 0 && self.1.contains(n) {
          self.add("generic.arg.forwarded-param");
        }
        if PRELUDE_ALL.contains(&n.as_str()) && n != "any" {
          self.add(&format!("pre.{}", n));
        }
        self.add("name");
        self.args(a);
      }
      GType2::Paren(t) => {
        self.add("paren");
        self.t(t);
      }
      GType2::Map(g) => {
        self.add("map");
        self.g(g, "map");
      }
      GType2::Array(g) => {
        self.add("array");
        self.g(g, "arr");
      }
      GType2::Unwrap(_, a) => {
        self.add("unwrap");
        self.args(a);
      }
      GType2::EnumInline(g) => {
        self.add("enum.inline");
        self.g(g, "enum");
      }
      GType2::EnumName(_, a) => {
        self.add("enum.name");
        self.args(a);
      }
      GType2::Tag(c, t) => {
        self.tagc(c, "tag");
        self.t(t);
      }
      GType2::Major(m, c) => {
        self.add(&format!("major.{}", m));
        self.tagc(c, "major");
      }
      GType2::Any => self.add("any.hash"),
    }
  }
  fn t1(&mut self, t: &GType1) {
    self.t2(&t.t2);
    if let Some((op, r)) = &t.op {
      match op {
        GOp::Range { incl: true } => self.add("range.incl"),
        GOp::Range { incl: false } => self.add("range.excl"),
        GOp::Ctl(c) => self.add(&format!("ctl.{}", c)),
      }
      if matches!(op, GOp::Range { .. }) && (matches!(&t.t2, GType2::Name(..)) || matches!(r, GType2::Name(..))) {
        self.add("range.named-bound");
      }
      self.t2(r);
    }
  }
  fn t(&mut self, t: &GType) {
    if t.choices.len() > 1 {
      self.add("type.choice");
    }
    for c in &t.choices {
      self.t1(c);
    }
  }
  fn occ(&mut self, o: &Option<GOcc>, ctx: &str) {
    match o {
      None => {}
      Some(GOcc::Opt) => self.add(&format!("{}.occ.opt", ctx)),
      Some(GOcc::Star) => self.add(&format!("{}.occ.star", ctx)),
      Some(GOcc::Plus) => self.add(&format!("{}.occ.plus", ctx)),
      Some(GOcc::Range(..)) => self.add(&format!("{}.occ.range", ctx)),
    }
  }
  fn e(&mut self, e: &GEntry, ctx: &str) {
    match e {
      GEntry::Val { occ, key, ty } => {
        self.occ(occ, ctx);
        match key {
          None => self.add(&format!("{}.entry.keyless", ctx)),
          Some(GKey::Bare(n)) => {
            self.add(&format!("{}.key.bare", ctx));
            if PRELUDE_ALL.contains(&n.as_str()) {
              self.add("key.bare.prelude-name");
            }
          }
          Some(GKey::Value(l)) => {
            self.add(&format!("{}.key.value", ctx));
            self.lit(l, ".key");
          }
          Some(GKey::Type1 { t1, cut }) => {
            self.add(&format!("{}.key.type", ctx));
            if *cut {
              self.add(&format!("{}.cut", ctx));
            }
            self.t1(t1);
          }
        }
        self.t(ty);
      }
      GEntry::Name { occ, args, .. } => {
        self.occ(occ, ctx);
        self.add(&format!("{}.entry.name", ctx));
        self.args(args);
      }
      GEntry::Inline { occ, group } => {
        self.occ(occ, ctx);
        self.add(&format!("{}.entry.inline", ctx));
        self.g(group, ctx);
      }
    }
  }
  fn g(&mut self, g: &GGroup, ctx: &str) {
    if g.choices.len() > 1 {
      self.add(&format!("{}.grpchoice", ctx));
    }
    for c in &g.choices {
      if c.entries.is_empty() {
        self.add(&format!("{}.empty", ctx));
      }
      if c.entries.len() > 1 {
        self.add(&format!("{}.members.multi", ctx));
      }
      {
        // the same literal key on two members of one alternative
        let mut keys: Vec<String> = vec![];
        for e in &c.entries {
          match e {
            GEntry::Val { key: Some(GKey::Bare(n)), .. } => keys.push(format!("t:{}", n)),
            GEntry::Val { key: Some(GKey::Value(l)), .. } => keys.push(match l.value() {
              GLit::Text(s) => format!("t:{}", s),
              x => format!("{:?}", x),
            }),
            _ => {}
          }
        }
        let n = keys.len();
        keys.sort();
        keys.dedup();
        if keys.len() < n {
          self.add(&format!("{}.dup-literal-key", ctx));
        }
      }
      for e in &c.entries {
        self.e(e, ctx);
      }
    }
  }
}

pub fn tags(g: &GS) -> BTreeSet<String> {
  let mut t = Tags(BTreeSet::new(), vec![], String::new(), 0);
  for r in &g.rules {
    t.1 = r.params.clone();
    t.2 = r.name.clone();
    if !r.params.is_empty() {
      t.add("generic.params");
    }
    if r.name.starts_with('$') {
      t.add("socket.def");
      let plain = r.name.trim_start_matches('$');
      if g.rules.iter().any(|o| o.name == plain) {
        t.add("socket.same-name-as-rule");
      }
    }
    match r.assign {
      Assign::Eq => {}
      Assign::TypeAlt => t.add("assign.typealt"),
      Assign::GroupAlt => t.add("assign.groupalt"),
    }
    match &r.body {
      GBody::Type(ty) => t.t(ty),
      GBody::Group(e) => {
        t.add("rule.group");
        t.e(e, "grp");
      }
    }
  }
  t.0
}

// ---------------------------------------------------------------------------
// generic mutable traversal (used by repairs / refactorings)

pub struct VisitMut<'f> {
  pub t2: &'f mut dyn FnMut(&mut GType2),
  pub t1: &'f mut dyn FnMut(&mut GType1),
  pub entry: &'f mut dyn FnMut(&mut GEntry),
}

impl<'f> VisitMut<'f> {
  pub fn gs(&mut self, g: &mut GS) {
    for r in &mut g.rules {
      match &mut r.body {
        GBody::Type(t) => self.ty(t),
        GBody::Group(e) => self.en(e),
      }
    }
  }
  pub fn ty(&mut self, t: &mut GType) {
    for c in &mut t.choices {
      self.ty1(c);
    }
  }
  pub fn ty1(&mut self, t: &mut GType1) {
    (self.t1)(t);
    self.ty2(&mut t.t2);
    if let Some((_, r)) = &mut t.op {
      self.ty2(r);
    }
  }
  pub fn ty2(&mut self, t: &mut GType2) {
    (self.t2)(t);
    match t {
      GType2::Name(_, a) | GType2::Unwrap(_, a) | GType2::EnumName(_, a) => {
        for x in a {
          self.ty1(x);
        }
      }
      GType2::Paren(t) => self.ty(t),
      GType2::Map(g) | GType2::Array(g) | GType2::EnumInline(g) => self.gr(g),
      GType2::Tag(_, t) => self.ty(t),
      _ => {}
    }
  }
  pub fn gr(&mut self, g: &mut GGroup) {
    for c in &mut g.choices {
      for e in &mut c.entries {
        self.en(e);
      }
    }
  }
  pub fn en(&mut self, e: &mut GEntry) {
    (self.entry)(e);
    match e {
      GEntry::Val { key, ty, .. } => {
        if let Some(GKey::Type1 { t1, .. }) = key {
          self.ty1(t1);
        }
        self.ty(ty);
      }
      GEntry::Name { args, .. } => {
        for x in args {
          self.ty1(x);
        }
      }
      GEntry::Inline { group, .. } => self.gr(group),
    }
  }
}

/// apply callbacks to every node of a copy of `g`
pub fn rewrite(g: &GS, t2: &mut dyn FnMut(&mut GType2), t1: &mut dyn FnMut(&mut GType1), entry: &mut dyn FnMut(&mut GEntry)) -> GS {
  let mut c = g.clone();
  VisitMut { t2, t1, entry }.gs(&mut c);
  c
}

// ---------------------------------------------------------------------------
// well-formedness of references (validation workloads never judge ill-formed schemas)

/// every reference resolves to a rule of the right kind with the right number of generic
/// arguments, a generic parameter in scope, a prelude name or a socket
pub fn wellformed(g: &GS) -> bool {
  use std::collections::BTreeMap;
  let mut types: BTreeMap<&str, usize> = BTreeMap::new();
  let mut groups: BTreeMap<&str, usize> = BTreeMap::new();
  for r in &g.rules {
    match r.body {
      GBody::Type(_) => {
        if let Some(a) = types.get(r.name.as_str()) {
          if *a != r.params.len() {
            return false;
          }
        }
        types.insert(&r.name, r.params.len());
      }
      GBody::Group(_) => {
        if let Some(a) = groups.get(r.name.as_str()) {
          if *a != r.params.len() {
            return false;
          }
        }
        groups.insert(&r.name, r.params.len());
      }
    }
  }
  for r in &g.rules {
    if types.contains_key(r.name.as_str()) && groups.contains_key(r.name.as_str()) {
      return false;
    }
  }
  let ok = std::cell::Cell::new(true);
  for r in &g.rules {
    let params = r.params.clone();
    let mut one = GS { rules: vec![r.clone()] };
    let chk_type = |n: &str, nargs: usize| {
      if params.iter().any(|p| p == n) {
        return nargs == 0;
      }
      if let Some(a) = types.get(n) {
        return *a == nargs;
      }
      if groups.contains_key(n) {
        return false;
      }
      n.starts_with('$') || (nargs == 0 && PRELUDE_ALL.contains(&n))
    };
    let chk_group = |n: &str, nargs: usize| groups.get(n).map(|a| *a == nargs).unwrap_or(n.starts_with("$$"));
    {
      let mut t2 = |t: &mut GType2| match t {
        GType2::Name(n, a) | GType2::Unwrap(n, a) => {
          if !chk_type(n, a.len()) {
            ok.set(false);
          }
        }
        GType2::EnumName(n, a) => {
          if !chk_group(n, a.len()) {
            ok.set(false);
          }
        }
        _ => {}
      };
      let mut t1f = |_: &mut GType1| {};
      let mut en = |e: &mut GEntry| {
        if let GEntry::Name { name, args, .. } = e {
          if !(chk_group(name, args.len()) || chk_type(name, args.len())) {
            ok.set(false);
          }
        }
      };
      VisitMut { t2: &mut t2, t1: &mut t1f, entry: &mut en }.gs(&mut one);
    }
    // a keyless entry whose type is a lone group name is a group reference: allowed (handled by the walkers as a Name)
  }
  ok.get()
}
