//! Supervisor / shard machinery shared by every property check.
//!
//! A check is a deterministic function `run(ctx, idx)` executed for case indices
//! `0..cases(tier)`. The supervisor splits the index range over child processes
//! (`vh child ...`), each of which journals `B <idx>` before a case so that a
//! child killed by a signal (stack overflow, allocation abort) or by the CPU
//! watchdog can be attributed to the case in flight and resumed after it.
//! Children return a summary (counters, distinct-case hashes, samples,
//! violations, known-finding hits) that the supervisor merges into the
//! evidence file and the exit status.

use crate::rng::Rng;
use serde_json::{json, Map, Value};
use std::cell::RefCell;
use std::collections::{BTreeMap, BTreeSet, HashSet};
use std::io::{BufRead, BufReader, Write};
use std::panic::{self, AssertUnwindSafe};
use std::process::{Command, Stdio};
use std::sync::{Arc, Mutex};
use std::time::{Duration, Instant};

pub const VERIF: &str = "/verif";

#[derive(Clone, Copy, PartialEq, Eq, Debug)]
pub enum Tier {
  Quick,
  Thorough,
}

impl Tier {
  pub fn name(self) -> &'static str {
    match self {
      Tier::Quick => "quick",
      Tier::Thorough => "thorough",
    }
  }
  pub fn parse(s: &str) -> Tier {
    if s == "thorough" {
      Tier::Thorough
    } else {
      Tier::Quick
    }
  }
}

#[derive(Clone, Debug)]
pub struct Finding {
  pub id: String,
  pub property: String,
  pub status: String, // "known" | "fixed"
  pub signature: String,
  /// optional: regular expression that the whole signature must match (anchored by the entry itself)
  pub signature_regex: Option<regex::Regex>,
  /// class findings on "direction:tag,tag,..." signatures of shrunk witnesses:
  /// the direction must be one of `directions`, every tag of `all_of` and at least one
  /// of `any_of` (when given) must be present, none of `none_of`
  pub directions: Vec<String>,
  pub all_of: Vec<String>,
  pub any_of: Vec<String>,
  pub none_of: Vec<String>,
  pub what: String,
}

impl Finding {
  pub fn matches(&self, sig: &str) -> bool {
    if !self.signature.is_empty() && self.signature == sig {
      return true;
    }
    if let Some(r) = &self.signature_regex {
      if r.is_match(sig) {
        return true;
      }
    }
    if !self.directions.is_empty() {
      if let Some((dir, tags)) = sig.split_once(':') {
        let tags: Vec<&str> = tags.split(',').collect();
        return self.directions.iter().any(|d| d == dir || (d.ends_with('*') && dir.starts_with(&d[..d.len() - 1])))
          && self.all_of.iter().all(|t| tags.contains(&t.as_str()))
          && (self.any_of.is_empty() || self.any_of.iter().any(|t| tags.contains(&t.as_str())))
          && !self.none_of.iter().any(|t| tags.contains(&t.as_str()));
      }
    }
    false
  }
}

fn strs(v: &Value) -> Vec<String> {
  v.as_array().map(|a| a.iter().filter_map(|x| x.as_str().map(|s| s.to_string())).collect()).unwrap_or_default()
}

pub fn load_findings() -> Vec<Finding> {
  let path = format!("{}/known_findings.json", VERIF);
  let txt = match std::fs::read_to_string(&path) {
    Ok(t) => t,
    Err(_) => return vec![],
  };
  let v: Value = serde_json::from_str(&txt).expect("known_findings.json is not valid JSON");
  let mut out = vec![];
  for f in v["findings"].as_array().cloned().unwrap_or_default() {
    out.push(Finding {
      id: f["id"].as_str().unwrap_or("").to_string(),
      property: f["property"].as_str().unwrap_or("").to_string(),
      status: f["status"].as_str().unwrap_or("known").to_string(),
      signature: f["signature"].as_str().unwrap_or("").to_string(),
      signature_regex: f["signature_regex"].as_str().map(|r| regex::Regex::new(&format!("^(?:{})$", r)).expect("bad signature_regex in known_findings.json")),
      directions: strs(&f["directions"]),
      all_of: strs(&f["all_of"]),
      any_of: strs(&f["any_of"]),
      none_of: strs(&f["none_of"]),
      what: f["what"].as_str().unwrap_or("").to_string(),
    });
  }
  out
}

pub struct PropDef {
  pub id: &'static str,
  pub level: &'static str,
  pub cases: fn(Tier) -> u64,
  pub run: fn(&mut Ctx, u64),
  pub stack_mb: usize,
  /// CPU seconds a single case may use before the watchdog kills the child
  pub case_cpu_s: f64,
  /// whether a crash / cpu-timeout of a case is itself an event of this property
  pub crash_is_event: bool,
  pub rule: &'static str,
  pub assumptions: &'static [&'static str],
  /// returns Some(reason) when the merged summary lacks required observations
  pub required: fn(&Summary) -> Option<String>,
  /// optional extra work done once in the supervisor after the shards (process-level phases)
  pub post: Option<fn(&mut Summary, Tier, u64)>,
  pub shards: fn(Tier) -> usize,
}

pub fn default_shards(_t: Tier) -> usize {
  16
}

#[derive(Default, Clone)]
pub struct Summary {
  pub evals: u64,
  pub counters: BTreeMap<String, u64>,
  pub distinct: BTreeSet<u64>,
  pub samples: Vec<Value>,
  pub violations: Vec<Value>,
  pub known_hits: BTreeMap<String, u64>,
  pub notes: Vec<String>,
  pub inconclusive: Vec<String>,
  pub extra: Map<String, Value>,
}

impl Summary {
  pub fn c(&self, k: &str) -> u64 {
    *self.counters.get(k).unwrap_or(&0)
  }
  pub fn to_json(&self, next: u64) -> Value {
    json!({
      "next": next,
      "evals": self.evals,
      "counters": self.counters,
      "distinct": self.distinct.iter().collect::<Vec<_>>(),
      "samples": self.samples,
      "violations": self.violations,
      "known_hits": self.known_hits,
      "notes": self.notes,
      "inconclusive": self.inconclusive,
      "extra": self.extra,
    })
  }
  pub fn merge_json(&mut self, v: &Value) {
    self.evals += v["evals"].as_u64().unwrap_or(0);
    if let Some(m) = v["counters"].as_object() {
      for (k, n) in m {
        *self.counters.entry(k.clone()).or_insert(0) += n.as_u64().unwrap_or(0);
      }
    }
    if let Some(a) = v["distinct"].as_array() {
      for h in a {
        self.distinct.insert(h.as_u64().unwrap_or(0));
      }
    }
    if let Some(a) = v["samples"].as_array() {
      for s in a {
        if self.samples.len() < 12 {
          self.samples.push(s.clone());
        }
      }
    }
    if let Some(a) = v["violations"].as_array() {
      for s in a {
        self.violations.push(s.clone());
      }
    }
    if let Some(m) = v["known_hits"].as_object() {
      for (k, n) in m {
        *self.known_hits.entry(k.clone()).or_insert(0) += n.as_u64().unwrap_or(0);
      }
    }
    if let Some(a) = v["notes"].as_array() {
      for s in a {
        if let Some(s) = s.as_str() {
          if self.notes.len() < 50 && !self.notes.iter().any(|x| x == s) {
            self.notes.push(s.to_string());
          }
        }
      }
    }
    if let Some(a) = v["inconclusive"].as_array() {
      for s in a {
        if let Some(s) = s.as_str() {
          self.inconclusive.push(s.to_string());
        }
      }
    }
    if let Some(m) = v["extra"].as_object() {
      for (k, n) in m {
        self.extra.insert(k.clone(), n.clone());
      }
    }
  }
}

pub struct Ctx {
  pub prop: &'static str,
  pub seed: u64,
  pub tier: Tier,
  pub idx: u64,
  pub rng: Rng,
  pub sum: Summary,
  pub findings: Vec<Finding>,
  pub verbose: bool,
  pub announce_calls: bool,
  sample_quota: BTreeMap<String, u32>,
}

thread_local! {
  static LAST_PANIC: RefCell<Option<String>> = RefCell::new(None);
}

pub fn install_panic_hook() {
  panic::set_hook(Box::new(|info| {
    let loc = info
      .location()
      .map(|l| format!("{}:{}", l.file(), l.line()))
      .unwrap_or_default();
    let msg = if let Some(s) = info.payload().downcast_ref::<&str>() {
      s.to_string()
    } else if let Some(s) = info.payload().downcast_ref::<String>() {
      s.clone()
    } else {
      "<non-string panic>".to_string()
    };
    LAST_PANIC.with(|p| *p.borrow_mut() = Some(format!("{} @ {}", msg, loc)));
  }));
}

/// the panic hook is process-wide; LAST_PANIC is thread-local, so worker threads just need the hook installed once
pub fn install_thread_panic_capture() {}

/// Run an implementation call; a panic is returned as Err("msg @ file:line").
pub fn guard<T>(f: impl FnOnce() -> T) -> Result<T, String> {
  LAST_PANIC.with(|p| *p.borrow_mut() = None);
  match panic::catch_unwind(AssertUnwindSafe(f)) {
    Ok(v) => Ok(v),
    Err(_) => Err(
      LAST_PANIC
        .with(|p| p.borrow_mut().take())
        .unwrap_or_else(|| "<panic>".to_string()),
    ),
  }
}

impl Ctx {
  pub fn new(prop: &'static str, seed: u64, tier: Tier) -> Ctx {
    Ctx {
      prop,
      seed,
      tier,
      idx: 0,
      rng: Rng::new(0),
      sum: Summary::default(),
      findings: load_findings(),
      verbose: false,
      announce_calls: false,
      sample_quota: BTreeMap::new(),
    }
  }

  pub fn begin_case(&mut self, idx: u64) {
    self.idx = idx;
    self.rng = Rng::for_case(self.seed, self.prop, idx);
  }

  pub fn count(&mut self, k: &str) {
    *self.sum.counters.entry(k.to_string()).or_insert(0) += 1;
  }
  pub fn add(&mut self, k: &str, n: u64) {
    *self.sum.counters.entry(k.to_string()).or_insert(0) += n;
  }
  pub fn max(&mut self, k: &str, n: u64) {
    let e = self.sum.counters.entry(k.to_string()).or_insert(0);
    if n > *e {
      *e = n;
    }
  }
  pub fn eval(&mut self) {
    self.sum.evals += 1;
  }
  pub fn evals(&mut self, n: u64) {
    self.sum.evals += n;
  }
  pub fn nontrivial(&mut self, h: u64) {
    // bounded per shard; beyond the cap the reported number is a lower bound
    if self.sum.distinct.len() < 400_000 {
      self.sum.distinct.insert(h);
    } else {
      *self
        .sum
        .counters
        .entry("distinct_cap_reached_cases".to_string())
        .or_insert(0) += 1;
    }
  }
  /// keep up to `quota` samples per class
  pub fn sample(&mut self, class: &str, quota: u32, v: impl FnOnce() -> Value) {
    let q = self.sample_quota.entry(class.to_string()).or_insert(0);
    if *q < quota && self.sum.samples.len() < 12 {
      *q += 1;
      let mut val = v();
      if let Some(o) = val.as_object_mut() {
        o.insert("class".into(), json!(class));
        o.insert("case".into(), json!(self.idx));
      }
      self.sum.samples.push(val);
    }
  }
  pub fn note(&mut self, s: String) {
    if self.sum.notes.len() < 50 && !self.sum.notes.contains(&s) {
      self.sum.notes.push(s);
    }
  }
  /// announce an implementation call about to be made (C05 journaling)
  pub fn call(&mut self, tag: &str) {
    if self.announce_calls {
      let out = std::io::stdout();
      let mut l = out.lock();
      let _ = writeln!(l, "C {}", tag);
      let _ = l.flush();
    }
  }

  /// is this signature explained by a listed known finding of this property?
  pub fn is_known(&self, signature: &str) -> bool {
    self.findings.iter().any(|f| f.property == self.prop && f.status == "known" && f.matches(signature))
  }

  /// how many tags of a "direction:tag,tag" signature occur in the class findings of this
  /// property (used to steer shrinking away from listed constructs)
  pub fn known_score(&self, signature: &str) -> usize {
    let tags: Vec<&str> = signature.split_once(':').map(|x| x.1).unwrap_or("").split(',').collect();
    let mut n = 0;
    for t in tags {
      if self
        .findings
        .iter()
        .any(|f| f.property == self.prop && f.status == "known" && (f.all_of.iter().any(|x| x == t) || f.any_of.iter().any(|x| x == t)))
      {
        n += 1;
      }
    }
    n
  }

  /// Report an observed disagreement. `signature` is coarse and seed-stable; it is
  /// looked up in known_findings.json (exact match, status "known").
  pub fn report(&mut self, signature: &str, detail: Value) {
    if self.verbose {
      eprintln!("REPORT {} {}", signature, detail);
    }
    for f in &self.findings {
      if f.property == self.prop && f.status == "known" && f.matches(signature) {
        *self.sum.known_hits.entry(f.id.clone()).or_insert(0) += 1;
        return;
      }
    }
    *self
      .sum
      .counters
      .entry("violations_seen".to_string())
      .or_insert(0) += 1;
    // keep at most 3 witnesses per signature and 40 overall per shard
    let same = self
      .sum
      .violations
      .iter()
      .filter(|v| v["signature"].as_str() == Some(signature))
      .count();
    if same < 3 && self.sum.violations.len() < 40 {
      self.sum.violations.push(json!({
        "signature": signature,
        "case": self.idx,
        "detail": detail,
      }));
    }
  }
}

// ---------------------------------------------------------------------------
// child side

pub struct ChildArgs {
  pub seed: u64,
  pub tier: Tier,
  pub from: u64,
  pub to: u64,
  pub step: u64,
  pub skip: HashSet<u64>,
  pub out: String,
  pub verbose: bool,
}

pub fn child_main(def: &'static PropDef, a: ChildArgs) -> i32 {
  install_panic_hook();
  let stack = def.stack_mb * 1024 * 1024;
  let h = std::thread::Builder::new()
    .stack_size(stack)
    .spawn(move || {
      let mut ctx = Ctx::new(def.id, a.seed, a.tier);
      ctx.verbose = a.verbose;
      ctx.announce_calls = def.crash_is_event;
      let stdout = std::io::stdout();
      let mut i = a.from;
      let mut since_snap = 0u64;
      let mut last_snap = Instant::now();
      while i < a.to {
        if !a.skip.contains(&i) {
          {
            let mut l = stdout.lock();
            let _ = writeln!(l, "B {}", i);
            let _ = l.flush();
          }
          ctx.begin_case(i);
          let r = panic::catch_unwind(AssertUnwindSafe(|| (def.run)(&mut ctx, i)));
          if r.is_err() {
            let msg = LAST_PANIC
              .with(|p| p.borrow_mut().take())
              .unwrap_or_default();
            eprintln!("HARNESS-PANIC prop={} case={} {}", def.id, i, msg);
            ctx
              .sum
              .inconclusive
              .push(format!("harness panic in case {}: {}", i, msg));
          }
        }
        i += a.step;
        since_snap += 1;
        if since_snap >= 1 && last_snap.elapsed() > Duration::from_millis(400) {
          write_atomic(&a.out, &ctx.sum.to_json(i).to_string());
          since_snap = 0;
          last_snap = Instant::now();
        }
      }
      write_atomic(&a.out, &ctx.sum.to_json(u64::MAX).to_string());
    })
    .expect("spawn case thread");
  match h.join() {
    Ok(()) => 0,
    Err(_) => 3,
  }
}

pub fn write_atomic(path: &str, s: &str) {
  let tmp = format!("{}.tmp", path);
  std::fs::write(&tmp, s).expect("write summary");
  std::fs::rename(&tmp, path).expect("rename summary");
}

// ---------------------------------------------------------------------------
// supervisor side

fn proc_cpu_seconds(pid: u32) -> Option<f64> {
  let s = std::fs::read_to_string(format!("/proc/{}/stat", pid)).ok()?;
  let rp = s.rfind(')')?;
  let f: Vec<&str> = s[rp + 1..].split_whitespace().collect();
  // after ')' fields start at index 0 = state; utime = field 14 overall => index 11 here
  let ut: f64 = f.get(11)?.parse().ok()?;
  let st: f64 = f.get(12)?.parse().ok()?;
  Some((ut + st) / 100.0)
}

struct ShardState {
  last_idx: Option<u64>,
  last_tag: String,
  cpu_at_begin: f64,
  wall_at_begin: Instant,
}

struct ShardResult {
  summary: Summary,
  crashes: Vec<Value>,
}

fn run_shard(
  def: &'static PropDef,
  exe: &str,
  seed: u64,
  tier: Tier,
  shard: usize,
  nshards: usize,
  total: u64,
  scratch: &str,
) -> ShardResult {
  let mut summary = Summary::default();
  let mut crashes: Vec<Value> = vec![];
  let mut from = shard as u64;
  let mut skip: Vec<u64> = vec![];
  let mut respawns = 0;
  loop {
    if from >= total {
      break;
    }
    let out = format!("{}/{}-shard{}.json", scratch, def.id, shard);
    let _ = std::fs::remove_file(&out);
    let mut cmd = Command::new(exe);
    cmd
      .arg("child")
      .arg(def.id)
      .arg("--seed")
      .arg(seed.to_string())
      .arg("--tier")
      .arg(tier.name())
      .arg("--from")
      .arg(from.to_string())
      .arg("--to")
      .arg(total.to_string())
      .arg("--step")
      .arg(nshards.to_string())
      .arg("--out")
      .arg(&out)
      .arg("--skip")
      .arg(
        skip
          .iter()
          .map(|x| x.to_string())
          .collect::<Vec<_>>()
          .join(","),
      )
      .stdin(Stdio::null())
      .stdout(Stdio::piped())
      .stderr(Stdio::piped());
    let mut child = cmd.spawn().expect("spawn child");
    let pid = child.id();
    let st = Arc::new(Mutex::new(ShardState {
      last_idx: None,
      last_tag: String::new(),
      cpu_at_begin: 0.0,
      wall_at_begin: Instant::now(),
    }));
    let stdout = child.stdout.take().unwrap();
    let st2 = st.clone();
    let reader = std::thread::spawn(move || {
      let r = BufReader::new(stdout);
      for line in r.lines() {
        let line = match line {
          Ok(l) => l,
          Err(_) => break,
        };
        if let Some(rest) = line.strip_prefix("B ") {
          if let Ok(i) = rest.trim().parse::<u64>() {
            let cpu = proc_cpu_seconds(pid).unwrap_or(0.0);
            let mut s = st2.lock().unwrap();
            s.last_idx = Some(i);
            s.last_tag.clear();
            s.cpu_at_begin = cpu;
            s.wall_at_begin = Instant::now();
          }
        } else if let Some(rest) = line.strip_prefix("C ") {
          let mut s = st2.lock().unwrap();
          s.last_tag = rest.to_string();
        }
      }
    });
    let stderr = child.stderr.take().unwrap();
    let errbuf = Arc::new(Mutex::new(Vec::<String>::new()));
    let errbuf2 = errbuf.clone();
    let ereader = std::thread::spawn(move || {
      let r = BufReader::new(stderr);
      for line in r.split(b'\n') {
        let line = match line {
          Ok(l) => String::from_utf8_lossy(&l).to_string(),
          Err(_) => break,
        };
        let mut b = errbuf2.lock().unwrap();
        if line.starts_with("HARNESS-PANIC")
          || line.starts_with("REPORT")
          || line.contains("overflowed its stack")
          || line.contains("AddressSanitizer")
          || line.contains("ThreadSanitizer")
          || (line.starts_with("    #") && b.iter().any(|l| l.contains("ThreadSanitizer")))
          || line.contains("memory allocation")
          || line.contains("ALLOC-MONITOR")
        {
          b.push(line);
        } else if b.len() < 2000 {
          // keep a bounded tail of everything else for diagnostics
          b.push(line);
        }
        let n = b.len();
        if n > 4000 {
          b.drain(0..n - 2000);
        }
      }
    });
    // watchdog loop
    let mut killed: Option<&'static str> = None;
    let status = loop {
      match child.try_wait() {
        Ok(Some(s)) => break s,
        Ok(None) => {}
        Err(_) => {}
      }
      std::thread::sleep(Duration::from_millis(50));
      let (cpu0, wall0, has) = {
        let s = st.lock().unwrap();
        (s.cpu_at_begin, s.wall_at_begin, s.last_idx.is_some())
      };
      if has {
        if let Some(cpu) = proc_cpu_seconds(pid) {
          if cpu - cpu0 > def.case_cpu_s {
            killed = Some("cpu-budget");
            let _ = child.kill();
          }
        }
        if killed.is_none() && wall0.elapsed().as_secs_f64() > def.case_cpu_s * 10.0 + 30.0 {
          killed = Some("wall-watchdog");
          let _ = child.kill();
        }
      }
    };
    let _ = reader.join();
    let _ = ereader.join();
    let (last_idx, last_tag) = {
      let s = st.lock().unwrap();
      (s.last_idx, s.last_tag.clone())
    };
    // read the summary written so far
    let snap: Option<Value> = std::fs::read_to_string(&out)
      .ok()
      .and_then(|t| serde_json::from_str(&t).ok());
    let finished = snap
      .as_ref()
      .map(|v| v["next"].as_u64() == Some(u64::MAX))
      .unwrap_or(false);
    if status.success() && finished {
      summary.merge_json(snap.as_ref().unwrap());
      break;
    }
    // abnormal end
    use std::os::unix::process::ExitStatusExt;
    let sig = status.signal();
    let err_tail: Vec<String> = {
      let b = errbuf.lock().unwrap();
      b.iter()
        .filter(|l| {
          l.contains("overflowed its stack")
            || l.contains("AddressSanitizer")
            || l.contains("memory allocation")
            || l.contains("ALLOC-MONITOR")
            || l.starts_with("HARNESS-PANIC")
            || l.contains("panicked")
        })
        .rev()
        .take(4)
        .cloned()
        .collect()
    };
    // a ThreadSanitizer report: "WARNING: ThreadSanitizer: data race (pid=N)" followed by stacks
    let tsan: Option<(String, Vec<String>)> = {
      let b = errbuf.lock().unwrap();
      b.iter().position(|l| l.contains("WARNING: ThreadSanitizer:")).map(|i| {
        let what = b[i].split("ThreadSanitizer:").nth(1).unwrap_or("").split('(').next().unwrap_or("").trim().replace(' ', "-");
        let frames: Vec<String> = b[i + 1..].iter().filter(|l| l.starts_with("    #")).take(60).cloned().collect();
        (what, frames)
      })
    };
    let kind = if let Some((what, _)) = &tsan {
      format!("tsan-{}", what)
    } else if let Some(k) = killed {
      k.to_string()
    } else if let Some(s) = sig {
      if err_tail.iter().any(|l| l.contains("overflowed its stack") || l.contains("AddressSanitizer: stack-overflow")) {
        "stack-overflow".to_string()
      } else if let Some(l) = err_tail.iter().find(|l| l.contains("ERROR: AddressSanitizer:")) {
        // e.g. "==123==ERROR: AddressSanitizer: heap-buffer-overflow on address ..."
        let kind = l.split("AddressSanitizer:").nth(1).unwrap_or("").split_whitespace().next().unwrap_or("report");
        format!("asan-{}", kind)
      } else if err_tail
        .iter()
        .any(|l| l.contains("memory allocation") || l.contains("ALLOC-MONITOR"))
      {
        "alloc-abort".to_string()
      } else {
        format!("signal-{}", s)
      }
    } else {
      format!("exit-{}", status.code().unwrap_or(-1))
    };
    match last_idx {
      Some(i) => {
        crashes.push(json!({"case": i, "kind": kind, "call": last_tag, "stderr": err_tail, "tsan_frames": tsan.as_ref().map(|t| t.1.clone())}));
        skip.push(i);
      }
      None => {
        summary
          .inconclusive
          .push(format!("shard {} died before its first case: {} {:?}", shard, kind, err_tail));
        break;
      }
    }
    // resume: from the snapshot if present, else from where this child started
    if let Some(v) = &snap {
      // the snapshot covers from..next; everything at or after next is re-run
      let next = v["next"].as_u64().unwrap_or(from);
      if next != u64::MAX && next > from {
        // only merge when the snapshot precedes the crashing case; otherwise rerun
        if next <= last_idx.unwrap() {
          summary.merge_json(v);
          from = next;
        }
      }
    }
    respawns += 1;
    if respawns > 400 {
      summary
        .inconclusive
        .push(format!("shard {} respawned more than 400 times", shard));
      break;
    }
  }
  ShardResult { summary, crashes }
}

pub struct RunOpts {
  pub seed: u64,
  pub tier: Tier,
  pub only_case: Option<u64>,
}

/// Run the property's shards and return (merged summary, crashes)
pub fn supervise(def: &'static PropDef, o: &RunOpts) -> (Summary, Vec<Value>) {
  let exe = std::env::current_exe()
    .expect("current_exe")
    .to_string_lossy()
    .to_string();
  supervise_with(def, o, &exe, None)
}

/// `exe`: the binary whose `child` mode runs the cases (the sanitizer phase passes an
/// instrumented build of this same harness); `cap`: upper bound on the number of cases
pub fn supervise_with(def: &'static PropDef, o: &RunOpts, exe: &str, cap: Option<u64>) -> (Summary, Vec<Value>) {
  let exe = exe.to_string();
  let scratch = format!("{}/target/scratch/{}-{}{}", VERIF, def.id, std::process::id(), if cap.is_some() { "-san" } else { "" });
  std::fs::create_dir_all(&scratch).expect("mkdir scratch");
  // development aid: VH_CASES overrides the case count (never set by the registered commands)
  let total: u64 = std::env::var("VH_CASES").ok().and_then(|s| s.parse().ok()).unwrap_or_else(|| (def.cases)(o.tier));
  let total = cap.map(|c| total.min(c)).unwrap_or(total);
  let nshards = ((def.shards)(o.tier)).min(total.max(1) as usize).max(1);
  let mut handles = vec![];
  for sh in 0..nshards {
    let exe = exe.clone();
    let scratch = scratch.clone();
    let seed = o.seed;
    let tier = o.tier;
    handles.push(std::thread::spawn(move || {
      run_shard(def, &exe, seed, tier, sh, nshards, total, &scratch)
    }));
  }
  let mut sum = Summary::default();
  let mut crashes = vec![];
  for h in handles {
    let r = h.join().expect("shard thread");
    let v = r.summary.to_json(0);
    sum.merge_json(&v);
    crashes.extend(r.crashes);
  }
  let _ = std::fs::remove_dir_all(&scratch);
  (sum, crashes)
}

/// Finish a run: attribute crashes, write replay files, evidence, print verdict lines.
pub fn finish(
  def: &'static PropDef,
  o: &RunOpts,
  mut sum: Summary,
  crashes: Vec<Value>,
  started: Instant,
) -> i32 {
  let findings = load_findings();
  // crashes: events of the property only when it says so; otherwise recorded as skipped
  let mut ctx = Ctx::new(def.id, o.seed, o.tier);
  let sites = if def.crash_is_event { overflow_sites(def, o, &crashes) } else { BTreeMap::new() };
  for c in &crashes {
    *sum.counters.entry("cases_crashed".into()).or_insert(0) += 1;
    if def.crash_is_event {
      let kind = c["kind"].as_str().unwrap_or("");
      if kind == "wall-watchdog" {
        sum
          .inconclusive
          .push(format!("wall-clock watchdog fired on case {}", c["case"]));
        continue;
      }
      let call = c["call"].as_str().unwrap_or("").split('\t').next().unwrap_or("");
      let entry = call.split('/').next().unwrap_or("");
      let mut c = c.clone();
      let sig = if kind == "stack-overflow" {
        // identify the call site: the set of crate functions that recurse at the top of the dead stack
        let site = sites
          .get(&c["case"].as_u64().unwrap_or(u64::MAX))
          .cloned()
          .unwrap_or_else(|| "site-unknown".to_string());
        c["site"] = json!(site);
        // schemas with an unguarded reference cycle carry their class (computed by the
        // harness from the rule graph) so that findings about them cannot hide an
        // overflow on an acyclic or guarded-recursive schema
        let cls = call.splitn(2, '/').nth(1).filter(|c| c.starts_with("cyclic-alias")).unwrap_or("-");
        format!("{}:{}:{}:{}", kind, entry, cls, site)
      } else {
        format!("{}:{}", kind, call)
      };
      ctx.idx = c["case"].as_u64().unwrap_or(0);
      ctx.report(&sig, c);
    } else if sum.notes.len() < 50 {
      sum.notes.push(format!(
        "case {} ended the worker ({}); counted, not judged by this property (C05 owns crashes)",
        c["case"], c["kind"]
      ));
    }
  }
  let v = ctx.sum.to_json(0);
  sum.merge_json(&v);
  if let Some(post) = def.post {
    post(&mut sum, o.tier, o.seed);
  }

  // replay files + VIOLATION lines
  let mut exit = 0;
  let replay_dir = format!("{}/replay/{}", VERIF, def.id);
  if o.only_case.is_none() {
    let _ = std::fs::remove_dir_all(&replay_dir);
  }
  let mut seen_sig: BTreeSet<String> = BTreeSet::new();
  let mut nviol = 0;
  for v in &sum.violations {
    let sig = v["signature"].as_str().unwrap_or("").to_string();
    nviol += 1;
    if !seen_sig.insert(sig.clone()) {
      continue;
    }
    std::fs::create_dir_all(&replay_dir).ok();
    let h = crate::rng::hash_str(&format!("{}{}", sig, v["case"]));
    let path = format!("{}/{:016x}.json", replay_dir, h);
    let body = json!({
      "property": def.id,
      "seed": o.seed,
      "tier": o.tier.name(),
      "case": v["case"],
      "signature": sig,
      "detail": v["detail"],
      "replay": format!("./check {} --tier {} --seed {} --case {}", def.id, o.tier.name(), o.seed, v["case"]),
    });
    std::fs::write(&path, serde_json::to_string_pretty(&body).unwrap()).ok();
    println!("VIOLATION property={} replay={}", def.id, path);
    println!("  signature: {}", sig);
    exit = 1;
  }
  // known findings
  for f in &findings {
    if f.property != def.id {
      continue;
    }
    if f.status == "known" {
      let n = sum.known_hits.get(&f.id).copied().unwrap_or(0);
      if n > 0 {
        println!(
          "KNOWN-FINDING: property={} {} [{}; observed {} times in this run]",
          def.id, f.what, f.id, n
        );
      } else {
        println!(
          "note: known finding {} was not reproduced by this run ({})",
          f.id, f.what
        );
      }
    }
  }
  let req = (def.required)(&sum);
  if let Some(r) = &req {
    sum.inconclusive.push(format!("required observations missing: {}", r));
  }
  // only harness-level problems make a run inconclusive
  let harness_bad = sum
    .inconclusive
    .iter()
    .any(|s| s.contains("harness panic") || s.contains("required observations") || s.contains("died before") || s.contains("respawned") || s.contains("HARNESS"));
  if exit == 0 && harness_bad && o.only_case.is_none() {
    for s in &sum.inconclusive {
      println!("INCONCLUSIVE property={} {}", def.id, s);
    }
    exit = 2;
  }
  write_evidence(def, o, &sum, nviol, started);
  println!(
    "{} {}: evaluations={} distinct_nontrivial={} violations={} known_hits={} crashed_cases={} wall={:.1}s",
    def.id,
    o.tier.name(),
    sum.evals,
    sum.distinct.len(),
    nviol,
    sum.known_hits.values().sum::<u64>(),
    sum.c("cases_crashed"),
    started.elapsed().as_secs_f64()
  );
  exit
}

/// Re-run every case that died of a stack overflow under gdb (in parallel) and
/// return, per case, the sorted set of crate functions found in the innermost
/// frames of the dead stack, e.g. "cddl::validator::is_ident_string_data_type".
/// This is the call-site part of a stack-overflow signature.
pub fn overflow_sites(def: &'static PropDef, o: &RunOpts, crashes: &[Value]) -> BTreeMap<u64, String> {
  let exe = std::env::current_exe().unwrap().to_string_lossy().to_string();
  let cases: Vec<u64> = crashes
    .iter()
    .filter(|c| c["kind"].as_str() == Some("stack-overflow"))
    .filter_map(|c| c["case"].as_u64())
    .collect();
  let work = Arc::new(Mutex::new(cases));
  let out = Arc::new(Mutex::new(BTreeMap::new()));
  let mut hs = vec![];
  for _ in 0..12 {
    let work = work.clone();
    let out = out.clone();
    let exe = exe.clone();
    let (seed, tier, id) = (o.seed, o.tier, def.id);
    hs.push(std::thread::spawn(move || loop {
      let c = match work.lock().unwrap().pop() {
        Some(c) => c,
        None => break,
      };
      let r = Command::new("timeout")
        .args(["120", "gdb", "-batch", "-nx", "-ex", "run", "-ex", "bt 240", "--args", &exe, "child", id])
        .args(["--seed", &seed.to_string(), "--tier", tier.name()])
        .args(["--from", &c.to_string(), "--to", &(c + 1).to_string(), "--step", "1", "--out", "/dev/null"])
        .stdin(Stdio::null())
        .stderr(Stdio::null())
        .output();
      let mut fns: BTreeMap<String, u32> = BTreeMap::new();
      if let Ok(r) = r {
        for line in String::from_utf8_lossy(&r.stdout).lines() {
          if !line.starts_with('#') {
            continue;
          }
          // "#12 0x... in cddl::validator::foo::{closure#0} () at src/..." or "#12 cddl::... () at"
          let rest = line.splitn(2, ' ').nth(1).unwrap_or("").trim_start();
          let rest = match rest.find(" in ") {
            Some(p) if rest.starts_with("0x") => &rest[p + 4..],
            _ => rest,
          };
          let name = rest.split(" (").next().unwrap_or("");
          if let Some(p) = name.find("cddl") {
            if name.starts_with("cddl") || name[..p].ends_with('<') || name[..p].ends_with(' ') {
              let mut n = name.to_string();
              // strip closure / impl suffix noise and generic arguments
              while let Some(q) = n.find("::{closure") {
                n.truncate(q);
              }
              if let Some(q) = n.find('<') {
                if q > 0 && n.starts_with("cddl") {
                  n.truncate(q);
                }
              }
              // "{impl#8}" numbering shifts when impl blocks are added: normalise
              let mut m = String::new();
              let mut rest = n.as_str();
              while let Some(q) = rest.find("{impl#") {
                m.push_str(&rest[..q]);
                m.push_str("{impl}");
                rest = &rest[q..];
                rest = &rest[rest.find('}').map(|e| e + 1).unwrap_or(rest.len())..];
              }
              m.push_str(rest);
              if m.starts_with("cddl") {
                *fns.entry(m).or_insert(0) += 1;
              }
            }
          }
        }
      }
      // only functions that recur (>= 3 times) in the innermost 240 frames belong to the runaway
      // recursion; leaf frames that happen to be on top when the guard page is hit do not
      let rec: Vec<String> = fns.into_iter().filter(|(_, n)| *n >= 3).map(|(k, _)| k).collect();
      let site = if rec.is_empty() { "site-unknown".to_string() } else { rec.join("+") };
      out.lock().unwrap().insert(c, site);
    }));
  }
  for h in hs {
    let _ = h.join();
  }
  let m = out.lock().unwrap().clone();
  m
}

pub fn write_evidence(def: &PropDef, o: &RunOpts, sum: &Summary, nviol: usize, started: Instant) {
  if o.only_case.is_some() {
    return;
  }
  let mut cov = Map::new();
  cov.insert("evaluations".into(), json!(sum.evals));
  cov.insert("distinct_nontrivial".into(), json!(sum.distinct.len()));
  cov.insert("rule".into(), json!(def.rule));
  cov.insert("samples".into(), json!(sum.samples));
  cov.insert("counters".into(), json!(sum.counters));
  cov.insert("known_findings_observed".into(), json!(sum.known_hits));
  cov.insert("notes".into(), json!(sum.notes));
  cov.insert("inconclusive".into(), json!(sum.inconclusive));
  for (k, v) in &sum.extra {
    cov.insert(k.clone(), v.clone());
  }
  let ev = json!({
    "property_id": def.id,
    "tier": o.tier.name(),
    "seed": o.seed,
    "level": def.level,
    "coverage": Value::Object(cov),
    "assumptions": def.assumptions,
    "wall_s": started.elapsed().as_secs_f64(),
    "violations": nviol,
  });
  let dir = format!("{}/evidence", VERIF);
  std::fs::create_dir_all(&dir).ok();
  write_atomic(
    &format!("{}/{}.json", dir, def.id),
    &serde_json::to_string_pretty(&ev).unwrap(),
  );
}
