pub mod api;
pub mod astx;
pub mod corpus;
pub mod dv;
pub mod props;
pub mod rng;
pub mod sup;
