pub mod dv;
pub mod props;
pub mod rng;
pub mod sup;
