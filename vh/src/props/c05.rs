//! C05 — no entry point panics, aborts, overflows the stack or hangs.
//!
//! Monitors: panic hook + catch_unwind around every call (panic = event), child
//! death by signal attributed to the journaled call (stack overflow, allocation
//! abort = event), CPU watchdog on the child, thread-CPU-time growth on scaling
//! ladders (super-polynomial growth = event).

use crate::api::{self, norm_panic, thread_cpu_s};
use crate::corpus;
use crate::dv::{self, DV};
use crate::rng::{hash_str, Rng};
use crate::sup::{default_shards, guard, Ctx, PropDef, Summary, Tier};
use serde_json::json;

pub static DEF: PropDef = PropDef {
  id: "C05",
  level: "exploration",
  cases,
  run,
  // the main-thread default of a Rust program: what a user of the library gets
  stack_mb: 8,
  case_cpu_s: 40.0,
  crash_is_event: true,
  rule: "Every public entry point (cddl_from_str, CDDL::from_slice, Display, root_type_name_from_cddl_str, ParentVisitor::new, validate_json_from_str, validate_cbor_from_slice, validate_csv_from_str with both header flags, decode_cbor) is called on (a) scaling ladders n,2n,4n.. of nesting/alias/cycle/repetition/size families up to the property's bound (64 KiB, depth 64), (b) seed schemas and the repository fixtures under single/double-edit mutation, (c) token soup, (d) cyclic and ill-typed schema templates x documents, (e) generated and mutated JSON/CBOR/CSV documents incl. hostile heads and numeric extremes. Events: panic, worker death by signal, CPU budget, local growth degree above 6 between consecutive ladder sizes. Non-trivial = input longer than 8 bytes; distinct by hash of (entry, input).",
  assumptions: &[
    "time is thread CPU time / child CPU time from /proc, never wall clock; the wall-clock watchdog only yields inconclusive",
    "super-polynomial is decided per ladder on thread CPU time: the local degree ln(t2/t1)/ln(n2/n1) between consecutive sizes exceeds 6 with t1 >= 4 ms and t2 >= 60 ms; a ladder step is only attempted when the previous one used <= budget/16",
    "stack size 8 MiB (Rust main-thread default); 64 MiB would hide overflows a user would see",
    "dev profile with debug assertions and overflow checks (a panic only reachable with overflow checks is still reported; release profile run is part of the thorough tier)",
  ],
  required,
  post: Some(post),
  shards: default_shards,
};

fn n_template_cases() -> u64 {
  (CYCLIC.len() * 4 * 2) as u64
}

fn cases(t: Tier) -> u64 {
  LADDERS.len() as u64
    + n_template_cases()
    + match t {
      Tier::Quick => 24_000,
      Tier::Thorough => 200_000,
    }
}

fn required(s: &Summary) -> Option<String> {
  if s.c("ladders_run") < LADDERS.len() as u64 {
    return Some(format!("only {} of {} ladders ran", s.c("ladders_run"), LADDERS.len()));
  }
  for k in ["call:cddl_from_str", "call:validate_json", "call:validate_cbor", "call:validate_csv", "call:decode_cbor", "call:display", "call:parent_visitor", "call:from_slice"] {
    if s.c(k) < 100 {
      return Some(format!("entry point {} called only {} times", k, s.c(k)));
    }
  }
  None
}

// ---------------------------------------------------------------------------
// guarded entry points

fn ev(ctx: &mut Ctx, entry: &str, input_desc: &str) {
  ctx.eval();
  ctx.count(&format!("call:{}", entry));
  if input_desc.len() > 8 {
    ctx.nontrivial(hash_str(entry) ^ hash_str(input_desc));
  }
}

fn trunc(s: &str) -> String {
  if s.len() <= 600 {
    s.to_string()
  } else {
    let mut cut = 600;
    while !s.is_char_boundary(cut) {
      cut -= 1;
    }
    format!("{}... [{} bytes]", &s[..cut], s.len())
  }
}

fn on_panic(ctx: &mut Ctx, entry: &str, fam: &str, p: &str, input: serde_json::Value) {
  let sig = format!("panic:{}:{}", entry, norm_panic(p));
  ctx.report(&sig, json!({"entry": entry, "family": fam, "panic": p, "input": input}));
}

fn parse_all(ctx: &mut Ctx, fam: &str, text: &str) {
  let inp = || json!({"cddl": trunc(text)});
  ev(ctx, "cddl_from_str", text);
  ctx.call(&format!("cddl_from_str/{}", fam));
  let r = guard(|| cddl::cddl_from_str(text, false));
  let ast = match r {
    Err(p) => {
      on_panic(ctx, "cddl_from_str", fam, &p, inp());
      return;
    }
    Ok(Err(_)) => {
      ctx.count("parse_err");
      None
    }
    Ok(Ok(a)) => {
      ctx.count("parse_ok");
      Some(a)
    }
  };
  // checked entry point, prints diagnostics through codespan (part of the entry point)
  ev(ctx, "from_slice", text);
  ctx.call(&format!("from_slice/{}", fam));
  if let Err(p) = guard(|| cddl::ast::CDDL::from_slice(text.as_bytes()).map(|_| ())) {
    on_panic(ctx, "from_slice", fam, &p, inp());
  }
  ev(ctx, "root_type_name", text);
  ctx.call(&format!("root_type_name/{}", fam));
  if let Err(p) = guard(|| cddl::parser::root_type_name_from_cddl_str(text).map(|_| ())) {
    on_panic(ctx, "root_type_name", fam, &p, inp());
  }
  if let Some(ast) = ast {
    ev(ctx, "display", text);
    ctx.call(&format!("display/{}", fam));
    match guard(|| ast.to_string()) {
      Err(p) => on_panic(ctx, "display", fam, &p, inp()),
      Ok(s) => {
        // the formatted text is itself an input
        ev(ctx, "cddl_from_str", &s);
        ctx.call(&format!("cddl_from_str/{}+formatted", fam));
        if let Err(p) = guard(|| cddl::cddl_from_str(&s, false).map(|_| ())) {
          on_panic(ctx, "cddl_from_str", fam, &p, json!({"cddl": trunc(&s)}));
        }
      }
    }
    ev(ctx, "parent_visitor", text);
    ctx.call(&format!("parent_visitor/{}", fam));
    if let Err(p) = guard(|| cddl::ast::parent::ParentVisitor::new(&ast).map(|_| ())) {
      on_panic(ctx, "parent_visitor", fam, &p, inp());
    }
  }
}

thread_local! {
  static CLASS_MEMO: std::cell::RefCell<(String, Option<String>)> = std::cell::RefCell::new((String::new(), None));
}

/// family tag for crash attribution: schemas with an unguarded reference cycle are
/// one family per edge-kind set (this is the granularity known findings are keyed on)
fn fam_of(fam: &str, schema: &str) -> String {
  let cls = CLASS_MEMO.with(|m| {
    let mut m = m.borrow_mut();
    if m.0 != schema {
      let c = guard(|| crate::astx::alias_cycle_class_of_text(schema)).unwrap_or(None);
      *m = (schema.to_string(), c);
    }
    m.1.clone()
  });
  // "<class or family>\t<origin>": the part after the tab is diagnostic only (not in signatures)
  match cls {
    Some(c) => format!("{}\t{}", c, fam),
    None => format!("{}\t{}", fam.split(':').next().unwrap_or(fam), fam),
  }
}

fn val_json(ctx: &mut Ctx, fam: &str, schema: &str, doc: &str, feats: Option<&[&str]>) {
  let fam = &fam_of(fam, schema);
  ev(ctx, "validate_json", &format!("{}\u{0}{}", schema, doc));
  ctx.call(&format!("validate_json/{}", fam));
  match api::vjson(schema, doc, feats) {
    Err(p) => on_panic(ctx, "validate_json", fam, &p, json!({"cddl": trunc(schema), "json": trunc(doc)})),
    Ok(v) => ctx.count(&format!("json:{}", v.kind())),
  }
}

fn val_cbor(ctx: &mut Ctx, fam: &str, schema: &str, doc: &[u8], feats: Option<&[&str]>) {
  let fam = &fam_of(fam, schema);
  ev(ctx, "validate_cbor", &format!("{}\u{0}{}", schema, dv::hex(doc)));
  ctx.call(&format!("validate_cbor/{}", fam));
  match api::vcbor(schema, doc, feats) {
    Err(p) => on_panic(
      ctx,
      "validate_cbor",
      fam,
      &p,
      json!({"cddl": trunc(schema), "cbor_hex": trunc(&dv::hex(doc))}),
    ),
    Ok(v) => ctx.count(&format!("cbor:{}", v.kind())),
  }
}

fn val_csv(ctx: &mut Ctx, fam: &str, schema: &str, doc: &str, header: Option<bool>) {
  let fam = &fam_of(fam, schema);
  ev(ctx, "validate_csv", &format!("{}\u{0}{}", schema, doc));
  ctx.call(&format!("validate_csv/{}", fam));
  match api::vcsv(schema, doc, header, None) {
    Err(p) => on_panic(ctx, "validate_csv", fam, &p, json!({"cddl": trunc(schema), "csv": trunc(doc), "header": header})),
    Ok(v) => ctx.count(&format!("csv:{}", v.kind())),
  }
}

fn dec_cbor(ctx: &mut Ctx, fam: &str, doc: &[u8]) {
  ev(ctx, "decode_cbor", &dv::hex(doc));
  ctx.call(&format!("decode_cbor/{}", fam));
  if let Err(p) = guard(|| cddl::validator::cbor_value::decode_cbor(doc).map(|_| ())) {
    on_panic(ctx, "decode_cbor", fam, &p, json!({"cbor_hex": trunc(&dv::hex(doc))}));
  }
}

// ---------------------------------------------------------------------------
// scaling ladders

#[derive(Clone)]
enum Job {
  Parse(String),
  Json(String, String),
  Cbor(String, Vec<u8>),
  Csv(String, String),
  Decode(Vec<u8>),
}

struct Ladder {
  name: &'static str,
  /// sizes, strictly doubling
  sizes: &'static [usize],
  make: fn(usize) -> Job,
}

fn rep(s: &str, n: usize) -> String {
  s.repeat(n)
}

const DEPTHS: &[usize] = &[2, 4, 6, 8, 12, 16, 24, 32, 48, 64];
const SIZES: &[usize] = &[64, 128, 256, 512, 1024, 2048, 4096, 8192];
const SMALL: &[usize] = &[8, 16, 32, 64, 128, 256, 512];

fn nested_json_array(n: usize, leaf: &str) -> String {
  format!("{}{}{}", rep("[", n), leaf, rep("]", n))
}

fn nested_cbor_array(n: usize, leaf: u8) -> Vec<u8> {
  let mut v = vec![0x81u8; n];
  v.push(leaf);
  v
}

static LADDERS: &[Ladder] = &[
  Ladder { name: "nest-array-schema", sizes: DEPTHS, make: |n| Job::Parse(format!("a = {}int{}\n", rep("[", n), rep("]", n))) },
  Ladder { name: "nest-map-schema", sizes: DEPTHS, make: |n| Job::Parse(format!("a = {}int{}\n", rep("{ k: ", n), rep(" }", n))) },
  Ladder { name: "nest-paren-type", sizes: DEPTHS, make: |n| Job::Parse(format!("a = {}int{}\n", rep("(", n), rep(")", n))) },
  Ladder { name: "nest-inline-group", sizes: DEPTHS, make: |n| Job::Parse(format!("a = [{}int{}]\n", rep("(", n), rep(")", n))) },
  Ladder { name: "nest-group-occur", sizes: DEPTHS, make: |n| Job::Parse(format!("a = [{}int{}]\n", rep("* (", n), rep(")", n))) },
  Ladder { name: "nest-group-in-map", sizes: DEPTHS, make: |n| Job::Parse(format!("a = {{{}k: int{}}}\n", rep("(", n), rep(")", n))) },
  Ladder { name: "nest-tag", sizes: DEPTHS, make: |n| Job::Parse(format!("a = {}int{}\n", rep("#6.1(", n), rep(")", n))) },
  Ladder { name: "nest-generic-args", sizes: DEPTHS, make: |n| Job::Parse(format!("w<t> = [t]\na = {}int{}\n", rep("w<", n), rep(">", n))) },
  Ladder { name: "nest-choice-group", sizes: DEPTHS, make: |n| Job::Parse(format!("a = [{}int{}]\n", rep("(tstr // ", n), rep(")", n))) },
  Ladder { name: "nest-memberkey-type", sizes: DEPTHS, make: |n| Job::Parse(format!("a = {{ {}int{} => int }}\n", rep("[", n), rep("]", n))) },
  Ladder { name: "many-rules", sizes: SMALL, make: |n| Job::Parse((0..n).map(|i| format!("r{} = [int, tstr, {{ a: r{} }}]\n", i, (i + 1) % n)).collect()) },
  Ladder { name: "many-type-choices", sizes: SIZES, make: |n| Job::Parse(format!("a = {}\n", (0..n).map(|i| i.to_string()).collect::<Vec<_>>().join(" / "))) },
  Ladder { name: "many-group-entries", sizes: SMALL, make: |n| Job::Parse(format!("a = {{ {} }}\n", (0..n).map(|i| format!("k{}: int", i)).collect::<Vec<_>>().join(", "))) },
  Ladder { name: "many-group-choices", sizes: SMALL, make: |n| Job::Parse(format!("a = [ {} ]\n", (0..n).map(|i| format!("{}, tstr", i)).collect::<Vec<_>>().join(" // "))) },
  Ladder { name: "long-comment", sizes: SIZES, make: |n| Job::Parse(format!("a = int ; {}\n", rep("x", n * 4))) },
  Ladder { name: "many-comments", sizes: SMALL, make: |n| Job::Parse(format!("a = [\n{}  int\n]\n", rep("  ; c\n", n))) },
  Ladder { name: "long-text-literal", sizes: SIZES, make: |n| Job::Parse(format!("a = \"{}\"\n", rep("é\\n", n))) },
  Ladder { name: "long-hex-literal", sizes: SIZES, make: |n| Job::Parse(format!("a = h'{}'\n", rep("0a ", n))) },
  Ladder { name: "long-b64-literal", sizes: SIZES, make: |n| Job::Parse(format!("a = b64'{}'\n", rep("AAAA", n))) },
  Ladder { name: "long-identifier", sizes: SIZES, make: |n| Job::Parse(format!("{} = int\n", rep("ab-", n) + "z")) },
  Ladder { name: "unclosed-brackets", sizes: DEPTHS, make: |n| Job::Parse(format!("a = {}int\n", rep("[", n))) },
  Ladder { name: "unclosed-parens-keys", sizes: DEPTHS, make: |n| Job::Parse(format!("a = {{ {}int\n", rep("(k: ", n))) },
  // validation ladders
  Ladder { name: "json-nest-array", sizes: DEPTHS, make: |n| Job::Json(format!("a = {}int{}\n", rep("[", n), rep("]", n)), nested_json_array(n, "1")) },
  Ladder { name: "json-nest-recursive", sizes: DEPTHS, make: |n| Job::Json("a = [a] / int\n".into(), nested_json_array(n, "1")) },
  Ladder { name: "json-nest-recursive-map", sizes: DEPTHS, make: |n| Job::Json("a = { ? k: a }\n".into(), format!("{}{{}}{}", rep("{\"k\":", n), rep("}", n))) },
  Ladder { name: "json-nest-any", sizes: DEPTHS, make: |n| Job::Json("a = any\n".into(), nested_json_array(n, "1")) },
  Ladder { name: "json-alias-chain", sizes: SMALL, make: |n| Job::Json((0..n).map(|i| format!("r{} = r{}\n", i, i + 1)).collect::<String>() + &format!("r{} = int\n", n), "5".into()) },
  Ladder { name: "json-alias-chain-ctl", sizes: SMALL, make: |n| Job::Json(format!("a = r0 .size 3\n{}r{} = tstr\n", (0..n).map(|i| format!("r{} = r{}\n", i, i + 1)).collect::<String>(), n), "\"abc\"".into()) },
  Ladder { name: "json-star-star", sizes: SMALL, make: |n| Job::Json("a = [* (* int)]\n".into(), format!("[{}]", vec!["1"; n].join(","))) },
  Ladder { name: "json-star-opt-opt", sizes: SMALL, make: |n| Job::Json("a = [* (? int, ? int), tstr]\n".into(), format!("[{}]", vec!["1"; n].join(","))) },
  Ladder { name: "json-star3", sizes: SMALL, make: |n| Job::Json("a = [*(*(*int))]\n".into(), format!("[{},\"x\"]", vec!["1"; n].join(","))) },
  Ladder { name: "json-choice-seq", sizes: SMALL, make: |n| Job::Json("a = [* (int // int, int // int, int, int)]\n".into(), format!("[{}]", vec!["1"; n + 1].join(","))) },
  Ladder { name: "json-long-map-wild", sizes: SMALL, make: |n| Job::Json("a = { * tstr => int, ? \"k\": int }\n".into(), format!("{{{}}}", (0..n).map(|i| format!("\"k{}\":{}", i, i)).collect::<Vec<_>>().join(","))) },
  Ladder { name: "json-long-map-members", sizes: SMALL, make: |n| Job::Json(format!("a = {{ {} }}\n", (0..n).map(|i| format!("? k{}: int", i)).collect::<Vec<_>>().join(", ")), format!("{{{}}}", (0..n).map(|i| format!("\"k{}\":{}", i, i)).collect::<Vec<_>>().join(","))) },
  Ladder { name: "json-long-choice-miss", sizes: SMALL, make: |n| Job::Json(format!("a = {}\n", (0..n).map(|i| i.to_string()).collect::<Vec<_>>().join(" / ")), format!("{}", n + 1)) },
  Ladder { name: "json-long-array", sizes: SIZES, make: |n| Job::Json("a = [* int]\n".into(), format!("[{}]", vec!["1"; n].join(","))) },
  Ladder { name: "json-long-array-choice", sizes: SMALL, make: |n| Job::Json("a = [* (int / tstr / [* a])]\n".into(), format!("[{}]", vec!["[1,\"x\"]"; n].join(","))) },
  Ladder { name: "json-regexp", sizes: SMALL, make: |n| Job::Json("a = tstr .regexp \"(a*)*b\"\n".into(), format!("\"{}\"", rep("a", n))) },
  Ladder { name: "json-pcre-backtrack", sizes: &[4, 8, 16, 32, 64], make: |n| Job::Json("a = tstr .pcre \"^(a+)+\\\\1b$\"\n".into(), format!("\"{}\"", rep("a", n))) },
  Ladder { name: "json-long-text-size", sizes: SIZES, make: |n| Job::Json("a = tstr .size (1..100000)\n".into(), format!("\"{}\"", rep("é", n))) },
  Ladder { name: "json-generic-depth", sizes: &[2, 4, 8, 16, 32], make: |n| Job::Json(format!("a = {}int{}\nw<t> = [t]\n", rep("w<", n), rep(">", n)), nested_json_array(n, "1")) },
  Ladder { name: "json-group-chain", sizes: SMALL, make: |n| Job::Json(format!("a = [g0]\n{}g{} = (int)\n", (0..n).map(|i| format!("g{} = (g{})\n", i, i + 1)).collect::<String>(), n), "[1]".into()) },
  Ladder { name: "json-abnf-long", sizes: SMALL, make: |n| Job::Json("a = tstr .abnf \"r = *(\\\"a\\\" / \\\"aa\\\")\"\n".into(), format!("\"{}\"", rep("a", n))) },
  Ladder { name: "cbor-nest-array", sizes: DEPTHS, make: |n| Job::Cbor(format!("a = {}int{}\n", rep("[", n), rep("]", n)), nested_cbor_array(n, 1)) },
  Ladder { name: "cbor-nest-recursive", sizes: DEPTHS, make: |n| Job::Cbor("a = [a] / int\n".into(), nested_cbor_array(n, 1)) },
  Ladder { name: "cbor-nest-any", sizes: DEPTHS, make: |n| Job::Cbor("a = any\n".into(), nested_cbor_array(n, 1)) },
  Ladder { name: "cbor-nest-tags", sizes: DEPTHS, make: |n| Job::Cbor("a = #6.1(a) / int\n".into(), { let mut v = vec![0xc1u8; n]; v.push(1); v }) },
  Ladder { name: "cbor-alias-chain", sizes: SMALL, make: |n| Job::Cbor((0..n).map(|i| format!("r{} = r{}\n", i, i + 1)).collect::<String>() + &format!("r{} = int\n", n), vec![5]) },
  Ladder { name: "cbor-star-star", sizes: SMALL, make: |n| Job::Cbor("a = [* (* int)]\n".into(), { let mut v = vec![0x9f]; v.extend(vec![1u8; n]); v.push(0xff); v }) },
  Ladder { name: "cbor-star-opt-opt", sizes: SMALL, make: |n| Job::Cbor("a = [* (? int, ? int), tstr]\n".into(), { let mut v = vec![0x9f]; v.extend(vec![1u8; n]); v.push(0xff); v }) },
  Ladder { name: "cbor-long-map-wild", sizes: SMALL, make: |n| Job::Cbor("a = { * uint => int, ? 5 => tstr }\n".into(), { let mut v = vec![0xbf]; for i in 0..n { dv::head(&mut v, 0, i as u64, 0); v.push(1); } v.push(0xff); v }) },
  Ladder { name: "cbor-long-map-typedomain", sizes: SMALL, make: |n| Job::Cbor("a = { * uint => int, * tstr => tstr, ? 1 => int }\n".into(), { let mut v = vec![0xbf]; for i in 0..n { dv::head(&mut v, 0, i as u64, 0); v.push(1); } v.push(0xff); v }) },
  Ladder { name: "cbor-dup-keys", sizes: SMALL, make: |n| Job::Cbor("a = { * uint => int }\n".into(), { let mut v = vec![0xbf]; for _ in 0..n { v.push(1); v.push(1); } v.push(0xff); v }) },
  Ladder { name: "cbor-single-claims", sizes: &[4, 8, 16, 32, 64], make: |n| Job::Cbor(format!("a = {{ {} }}\n", (0..n).map(|_| "? uint => int".to_string()).collect::<Vec<_>>().join(", ")), { let mut v = vec![0xbf]; for i in 0..n { dv::head(&mut v, 0, i as u64, 0); v.push(0x61); v.push(0x61); } v.push(0xff); v }) },
  Ladder { name: "cbor-long-bytes", sizes: SIZES, make: |n| Job::Cbor("a = bstr .size (1..100000)\n".into(), { let mut v = vec![]; dv::head(&mut v, 2, (n * 4) as u64, 0); v.extend(vec![0u8; n * 4]); v }) },
  Ladder { name: "decode-nest-indef", sizes: DEPTHS, make: |n| Job::Decode({ let mut v = vec![0x9fu8; n]; v.extend(vec![0xffu8; n]); v }) },
  Ladder { name: "decode-nest-maps", sizes: DEPTHS, make: |n| Job::Decode({ let mut v = vec![]; for _ in 0..n { v.push(0xa1); v.push(0x00); } v.push(0); v }) },
  Ladder { name: "decode-nest-tags", sizes: SIZES, make: |n| Job::Decode({ let mut v = vec![0xc1u8; n.min(64)]; v.push(0); v }) },
  Ladder { name: "decode-many-chunks", sizes: SIZES, make: |n| Job::Decode({ let mut v = vec![0x7f]; for _ in 0..n { v.push(0x61); v.push(0x61); } v.push(0xff); v }) },
  Ladder { name: "csv-rows", sizes: SMALL, make: |n| Job::Csv("a = [* [tstr, int, float]]\n".into(), rep("x,1,1.5\n", n)) },
  Ladder { name: "csv-quoted", sizes: SIZES, make: |n| Job::Csv("a = [* [* tstr]]\n".into(), format!("\"{}\"\n", rep("a\"\"b,\n", n))) },
  Ladder { name: "csv-wide", sizes: SMALL, make: |n| Job::Csv("a = [* [* (int / tstr)]]\n".into(), format!("{}\n", vec!["1"; n].join(","))) },
];

fn run_job(ctx: &mut Ctx, fam: &str, j: &Job) -> f64 {
  let t0 = thread_cpu_s();
  match j {
    Job::Parse(t) => parse_all(ctx, fam, t),
    Job::Json(s, d) => val_json(ctx, fam, s, d, None),
    Job::Cbor(s, d) => {
      val_cbor(ctx, fam, s, d, None);
    }
    Job::Csv(s, d) => {
      val_csv(ctx, fam, s, d, Some(false));
      val_csv(ctx, fam, s, d, Some(true));
    }
    Job::Decode(d) => dec_cbor(ctx, fam, d),
  }
  thread_cpu_s() - t0
}

fn job_len(j: &Job) -> usize {
  match j {
    Job::Parse(t) => t.len(),
    Job::Json(s, d) => s.len() + d.len(),
    Job::Cbor(s, d) => s.len() + d.len(),
    Job::Csv(s, d) => s.len() + d.len(),
    Job::Decode(d) => d.len(),
  }
}

fn run_ladder(ctx: &mut Ctx, l: &Ladder) {
  ctx.count("ladders_run");
  let budget = DEF.case_cpu_s;
  let mut times: Vec<(usize, f64)> = vec![];
  let mut flagged = false;
  for &n in l.sizes {
    let j = (l.make)(n);
    if job_len(&j) > 65536 {
      break;
    }
    if let Some(&(_, tprev)) = times.last() {
      if tprev > budget / 16.0 {
        // a polynomial of degree <= 6 grows at most 11.4x on a 1.5x step and 64x on a
        // doubling: the next step could exhaust the budget without being super-polynomial
        ctx.count("ladders_truncated_slow_but_polynomial");
        ctx.note(format!("ladder {} stopped before n={} (previous step {:.2}s)", l.name, n, tprev));
        break;
      }
    }
    // journal: a kill during this step is attributed to "<call>/<ladder>@n"
    let fam = format!("{}@{}", l.name, n);
    let t = run_job(ctx, &fam, &j);
    times.push((n, t));
    ctx.count("ladder_steps");
    // growth rule, decided on thread CPU time: the local degree
    // ln(t2/t1)/ln(n2/n1) between two consecutive sizes exceeds 6 (worse than n^6)
    // with both measurements well above timer noise
    if times.len() >= 2 {
      let (n0, t0) = times[times.len() - 2];
      let (n1, t1) = times[times.len() - 1];
      if t0 >= 0.004 && t1 >= 0.060 {
        let mut deg = (t1 / t0).ln() / (n1 as f64 / n0 as f64).ln();
        if deg > 6.0 && t1 < budget / 4.0 {
          // confirm against measurement noise (lazy initialisation, page faults under
          // load): repeat both sizes twice and decide on the minimum per size
          let (mut m0, mut m1) = (t0, t1);
          for _ in 0..2 {
            m0 = m0.min(run_job(ctx, &format!("{}@{}", l.name, n0), &(l.make)(n0)));
            m1 = m1.min(run_job(ctx, &format!("{}@{}", l.name, n1), &(l.make)(n1)));
          }
          ctx.count("ladder_growth_remeasured");
          deg = if m0 >= 0.004 && m1 >= 0.060 { (m1 / m0).ln() / (n1 as f64 / n0 as f64).ln() } else { 0.0 };
          let k = times.len();
          times[k - 2].1 = m0;
          times[k - 1].1 = m1;
        }
        if deg > 6.0 {
          ctx.report(
            &format!("superpoly:{}", l.name),
            json!({"ladder": l.name, "local_degree": deg, "cpu_seconds_by_n": times.iter().map(|(n, t)| json!([n, t])).collect::<Vec<_>>()}),
          );
          flagged = true;
          break;
        }
      }
    }
  }
  if flagged {
    ctx.count("ladders_flagged_superpolynomial");
  }
  ctx.sample("ladder", 4, || {
    json!({"ladder": l.name, "cpu_seconds_by_n": times.iter().map(|(n, t)| json!([n, (t * 1e6).round() / 1e6])).collect::<Vec<_>>()})
  });
  let worst = times.iter().map(|x| x.1).fold(0.0, f64::max);
  ctx.max("ladder_worst_step_ms", (worst * 1000.0) as u64);
}

// ---------------------------------------------------------------------------
// hostile templates

const CYCLIC: &[&str] = &[
  "a = b\nb = a\n",
  "a = b .size 3\nb = a\n",
  "a = b .lt 3\nb = a\n",
  "a = b .eq 3\nb = c\nc = b\n",
  "a = b .regexp \"x\"\nb = a\n",
  "a = [* a]\n",
  "a = [a]\n",
  "a = [+ a]\n",
  "a = { * tstr => a }\n",
  "a = { k: a }\n",
  "a = { * a => a }\n",
  "a = a / int\n",
  "a = int / a\n",
  "a = a\n",
  "a = (a)\n",
  "a = b / c\nb = c\nc = b\n",
  "x = a<int>\na<t> = a<t>\n",
  "x = a<int>\na<t> = [t, ? a<t>]\n",
  "x = a<x>\na<t> = [? t]\n",
  "x = a<int>\na<t> = b<t>\nb<t> = a<t>\n",
  "a = ~a\n",
  "a = [~a]\n",
  "a = ~b\nb = ~a\n",
  "a = &a\n",
  "a = &g\ng = (x: a)\n",
  "a = #6.1(a)\n",
  "a = #6.1(a) / int\n",
  "a = a .and a\n",
  "a = a .within a\n",
  "a = a..a\n",
  "a = 1..a\n",
  "a = b..c\nb = c\nc = b\n",
  "a = tstr .cat a\n",
  "a = a .cat \"x\"\n",
  "a = \"x\" .cat b\nb = \"y\" .cat a\n",
  "a = a .plus 1\n",
  "a = 1 .plus a\n",
  "a = tstr .regexp a\n",
  "a = bstr .cbor a\n",
  "a = bstr .cborseq a\n",
  "a = tstr .abnf a\n",
  "a = tstr .size a\n",
  "a = uint .bits a\n",
  "a = int .lt a\n",
  "a = int .default a\n",
  "a = tstr .feature a\n",
  "a = tstr .json a\n",
  "a = tstr .join a\n",
  "a = tstr .printf a\n",
  "a = tstr .b64u a\n",
  "a = [* b]\nb = (a, b)\n",
  "a = [g]\ng = (g)\n",
  "a = [g]\ng = (* g)\n",
  "a = [g]\ng = (? g, int)\n",
  "a = [* g]\ng = (h)\nh = (g)\n",
  "a = { g }\ng = (g // x: int)\n",
  "a = { g }\ng = (? g, x: int)\n",
  "a = { * g }\ng = (x: int, g)\n",
  "b = $a\n$a /= $a\n",
  "a = { $$g }\n$$g //= ( $$g )\n",
  "a = [* (a / int)]\n",
  "a = { ? a => int }\n",
  "a = { a => a }\n",
  "a = [ a: a ]\n",
  "a = b .and c\nb = a\nc = a\n",
  "a = [* ()]\n",
  "a = [* (* ())]\n",
  "a = [+ (? int)]\n",
  "a = [+ ()]\n",
  "a = { * () }\n",
  "a = [* (int // )]\n",
  "a = x\nx = y\ny = z\nz = x\n",
  "a = time\n",
  "a = tdate\n",
  "a = #6.1(uint)\n",
  "a = [* time]\n",
  "a = { * tstr => time }\n",
  "a = uri / b64url / b64legacy / regexp / mime-message\n",
  "a = tstr .abnf \"???\"\n",
  "a = tstr .abnf \"r = \"\n",
  "a = tstr .abnf \"r = r\"\n",
  "a = tstr .abnf \"r = *r\"\n",
  "a = tstr .abnf \"r = 1*(*\\\"a\\\")\"\n",
  "a = bstr .abnfb \"r = %xZZ\"\n",
  "a = tstr .abnf (\"r = s\" .cat \"\\ns = r\")\n",
  "a = tstr .regexp \"(\"\n",
  "a = tstr .regexp \"a{99999999}\"\n",
  "a = tstr .regexp \"(a{1000}){1000}\"\n",
  "a = tstr .pcre \"(?<=a+)b\"\n",
  "a = tstr .pcre \"(\"\n",
  "a = tstr .iregexp \"[\"\n",
  "a = tstr .printf ([\"%s%s%s\", 1])\n",
  "a = tstr .printf ([\"%999999999d\", 1])\n",
  "a = tstr .printf ([\"%*d\", 1])\n",
  "a = tstr .printf ([\"%\", 1])\n",
  "a = tstr .printf \"%d\"\n",
  "a = tstr .printf []\n",
  "a = tstr .join [[\"a\"]]\n",
  "a = tstr .join 1\n",
  "a = tstr .json \"x\"\n",
  "a = tstr .base10 tstr\n",
  "a = tstr .b64u 1\n",
  "a = tstr .hex [int]\n",
  "a = uint .bitfield [64, 64]\n",
  "a = uint .bitfield [18446744073709551615]\n",
  "a = uint .bitfield []\n",
  "a = uint .bitfield 1\n",
  "a = uint .bits 99999999999\n",
  "a = uint .bits (0..18446744073709551615)\n",
  "a = bstr .bits (0..99999)\n",
  "a = uint .size 18446744073709551615\n",
  "a = uint .size 9\n",
  "a = uint .size 16\n",
  "a = uint .size 17\n",
  "a = int .size 8\n",
  "a = tstr .size -1\n",
  "a = tstr .size (5..1)\n",
  "a = bstr .size (0...0)\n",
  "a = 5..1\n",
  "a = 0...0\n",
  "a = 1.5..1\n",
  "a = \"a\"..\"z\"\n",
  "a = 0..18446744073709551615\n",
  "a = -9223372036854775808..9223372036854775807\n",
  "a = 18446744073709551615\n",
  "a = -9223372036854775808\n",
  "a = [18446744073709551615*18446744073709551615 int]\n",
  "a = [9223372036854775807* int]\n",
  "a = [*0 int]\n",
  "a = [5*1 int]\n",
  "a = { 5*1 tstr => int }\n",
  "a = #6.18446744073709551615(int)\n",
  "a = #7.255 / #7.24 / #7.31\n",
  "a = #0.18446744073709551615\n",
  "a = #6.<a>(int)\n",
  "a = #7.<a>\n",
  "a = #6.<tstr>(int)\n",
  "a = 1 .plus \"x\"\n",
  "a = 9223372036854775807 .plus 1\n",
  "a = 18446744073709551615 .plus 18446744073709551615\n",
  "a = -9223372036854775808 .plus -1\n",
  "a = 1e308 .plus 1e308\n",
  "a = \"a\" .cat 1\n",
  "a = 'a' .cat \"b\" .cat 'c'\n",
  "a = \"a\" .det h'ff'\n",
  "a = h'ff' .cat \"b\"\n",
  "a = int .default \"x\"\n",
  "a = { ? k: int .default [1,2] }\n",
  "a = b<int>\n",
  "a = b<int, tstr>\nb<t> = t\n",
  "a = b\nb<t> = t\n",
  "a = [b]\nb<t> = (t)\n",
  "a = ~int\n",
  "a = ~b\nb = 5\n",
  "a = ~b\nb = (x: int)\n",
  "a = &b\nb = int\n",
  "a = &(*)\n",
  "a = &()\n",
  "a = [g]\n",
  "a = { g }\ng = int\n",
  "a = { g }\ng = [int]\n",
  "g = (int)\n",
  "g = (x: int)\nh = (g)\n",
  "$$g //= (x: int)\n",
  "; only a comment\n",
  "",
  "a<t> = t\n",
  "a = { * tstr => any } .size 18446744073709551615\n",
  "a = [* int] .size (1..2)\n",
  "a = [* int] .eq [1]\n",
  "a = { a: 1 } .eq { a: 1 }\n",
  "a = any .ne null\n",
  "a = null .ne null\n",
  "a = float .lt 1.5\n",
  "a = float .ge 1e400\n",
  "a = int .lt 1.5\n",
  "a = tstr .lt \"x\"\n",
  "a = bstr .eq 'x'\n",
  "a = bstr .ne h''\n",
];

const HOSTILE_JSON: &[&str] = &[
  "5", "-5", "0", "1.5", "\"x\"", "\"abc\"", "[]", "[1]", "[1,2,3]", "{}", "{\"a\":1}", "{\"k\":{\"k\":{}}}", "null", "true", "false", "[[1]]", "[[[[[[1]]]]]]",
  "9223372036854775807", "9223372036854775808", "18446744073709551615", "18446744073709551616", "-9223372036854775808", "-9223372036854775809",
  "1e308", "1e309", "-1e309", "1e-400", "253402300800", "-62135596801", "9007199254740993", "0.1", "-0.0", "1e19", "1e20",
  "\"2020-01-01T00:00:00Z\"", "\"9999-12-31T23:59:60Z\"", "\"0000-00-00T00:00:00Z\"", "\"2020-13-01T00:00:00Z\"", "\"+10000-01-01T00:00:00Z\"",
  "\"http://[::1\"", "\"http://a b/\"", "\"%\"", "\"\\u0000\"", "\"\\ud800\"", "\"=\"", "\"AA==\"", "\"A\"", "\"é\"", "\"\"", "[\"a\",\"b\"]", "[1,\"x\",[],{}]",
  "{\"\":1}", "{\"a/b\":{\"c\":1}}", "[", "", "nul", "{\"a\":1,\"a\":2}", "1 2", "\u{feff}1", "[1,]", "01", "+1", ".5", "NaN", "Infinity",
];

fn hostile_ints() -> Vec<DV> {
  dv::BOUNDARY_INTS.iter().map(|i| DV::Int(*i)).collect()
}

fn hostile_cbor_docs(rng: &mut Rng) -> Vec<u8> {
  // tagged extremes and plain values, random encoding
  let tags = [0u64, 1, 2, 3, 4, 5, 21, 22, 23, 24, 32, 33, 34, 35, 36, 55799, u64::MAX];
  let inner = match rng.below(12) {
    0 => rng.pick(&hostile_ints()).clone(),
    1 => DV::Float(*rng.pick(&[f64::NAN, f64::INFINITY, f64::NEG_INFINITY, 1e300, -1e300, 253402300800.0, 1e19, -1e19, 0.5, -0.0, 9.3e18])),
    2 => DV::Text(rng.pick(&["", "x", "2020-01-01T00:00:00Z", "9999-99-99T99:99:99Z", "http://[::1", "%", "AA==", "A", "é", "\u{0}", "(", "a{99999999}"]).to_string()),
    3 => DV::Bytes(rng.pick(&[&b""[..], b"\x00", b"\xff\xff\xff\xff\xff\xff\xff\xff\xff", b"\x81\x01", b"\x9f", b"\xff", b"\x1c", b"\x5b\x00\x00\x00\x10\x00\x00\x00\x00"]).to_vec()),
    4 => DV::Array(vec![DV::Int(*rng.pick(dv::BOUNDARY_INTS)), DV::Int(*rng.pick(dv::BOUNDARY_INTS))]),
    5 => DV::Array(vec![DV::Int(*rng.pick(dv::BOUNDARY_INTS)), DV::Tag(2, Box::new(DV::Bytes(vec![0xff; 9])))]),
    6 => DV::Array(vec![]),
    7 => DV::Map(vec![(DV::Int(1), DV::Int(1)), (DV::Int(1), DV::Int(2))]),
    8 => DV::Map(vec![(DV::Float(f64::NAN), DV::Int(1)), (DV::Float(f64::NAN), DV::Int(2))]),
    9 => DV::Map(vec![(DV::Array(vec![]), DV::Null), (DV::Map(vec![]), DV::Undefined)]),
    10 => DV::Simple(*rng.pick(&[0u8, 19, 32, 255])),
    _ => dv::gen_value(rng, 3, true),
  };
  let v = if rng.chance(2, 3) {
    DV::Tag(*rng.pick(&tags), Box::new(inner))
  } else {
    inner
  };
  let o = dv::random_opts(rng);
  dv::encode(&v, &o, rng)
}

/// `N` is replaced by an extreme number
const EXTREME_TEMPLATES: &[&str] = &[
  "a = [N* (), int]\n",
  "a = [N*N ()]\n",
  "a = [N* (? tstr), int]\n",
  "a = [N* (* tstr), int]\n",
  "a = [N* g, int]\ng = ()\n",
  "a = [N*N int]\n",
  "a = [N* int]\n",
  "a = [*N int]\n",
  "a = { N* () }\n",
  "a = { N* (? \"k\": int) }\n",
  "a = { N* tstr => int }\n",
  "a = { *N tstr => int }\n",
  "a = tstr .size N\n",
  "a = tstr .size (0..N)\n",
  "a = bstr .size N\n",
  "a = [* int] .size N\n",
  "a = uint .size N\n",
  "a = uint .bits N\n",
  "a = 0..N\n",
  "a = -N..N\n",
  "a = int .lt N\n",
  "a = int .ge -N\n",
  "a = tstr .regexp \"a{N}\"\n",
  "a = tstr .regexp \"(a{1,N}){1,N}\"\n",
  "a = tstr .pcre \"(a*)*b\"\n",
  "a = tstr .pcre \"(a+)+\\\\1b\"\n",
  "a = tstr .pcre \"^(?=(a+)+b)\"\n",
  "a = tstr .regexp \"(a*)*b\"\n",
  "a = #6.N(int)\n",
  "a = #1.N\n",
  "a = #7.N\n",
  "a = int .plus N\n",
  "a = N .plus N\n",
  "a = tstr .base10 (0..N)\n",
  "a = [N* int] / [N* tstr]\n",
];

const EXTREME_NUMBERS: &[&str] = &["65536", "2147483648", "4000000000", "4000000000000", "9223372036854775807", "18446744073709551615"];

/// extreme numbers inside the schema (occurrence bounds on entries that match nothing, sizes,
/// range bounds, regexp repetition counts): one deterministic case per (template, number), so
/// that a hang costs one CPU budget per combination and not one per random repetition
fn run_extreme(ctx: &mut Ctx, i: usize) {
  let t = EXTREME_TEMPLATES[i / EXTREME_NUMBERS.len()].replace("N", EXTREME_NUMBERS[i % EXTREME_NUMBERS.len()]);
  let fam = "extreme-number-in-schema";
  ctx.count("extreme_number_cases");
  if i % 4 == 0 {
    parse_all(ctx, fam, &t);
  }
  for d in ["[1]", "[]", "{}", "{\"k\":1}", "\"aaaaaaaaaaaaaaaaaaaaaaaaaaaaaaaa\"", "5", "[1,2,3]"] {
    val_json(ctx, fam, &t, d, None);
  }
  for d in [vec![0x81u8, 0x01], vec![0x80], vec![0xa0], vec![0xa1, 0x61, b'k', 0x01], vec![0x78, 0x20].into_iter().chain(std::iter::repeat(b'a').take(32)).collect(), vec![0x05], vec![0x44, 1, 2, 3, 4]] {
    val_cbor(ctx, fam, &t, &d, None);
  }
}

/// one data item whose (possibly nested) head announces a hostile length
fn hostile_head_doc(rng: &mut Rng) -> Vec<u8> {
  let lens: [u64; 16] = [0, 1, 23, 24, 255, 256, 65535, 65536, 1 << 31, (1 << 32) - 1, 1 << 32, 1 << 40, 1 << 62, (1 << 63) - 1, 1 << 63, u64::MAX];
  let major = *rng.pick(&[2u8, 3, 4, 5]);
  let n = *rng.pick(&lens);
  let mut head = vec![];
  match rng.below(4) {
    0 if n < 256 => head.extend([major << 5 | 24, n as u8]),
    1 if n < 65536 => {
      head.push(major << 5 | 25);
      head.extend((n as u16).to_be_bytes());
    }
    2 if n < (1 << 32) => {
      head.push(major << 5 | 26);
      head.extend((n as u32).to_be_bytes());
    }
    _ => {
      head.push(major << 5 | 27);
      head.extend(n.to_be_bytes());
    }
  }
  let tail_len = rng.usize(6);
  let tail: Vec<u8> = (0..tail_len).map(|_| *rng.pick(&[0x00u8, 0x01, 0x41, 0x61, 0xff, 0x80])).collect();
  let mut inner = head;
  inner.extend(tail);
  // position of the hostile head
  let mut out = vec![];
  match rng.below(9) {
    0 => out = inner,
    1 => {
      out.push(0x5f); // indefinite byte string: the head is a chunk head
      out.extend(inner);
    }
    2 => {
      out.push(0x7f);
      out.extend(inner);
    }
    3 => {
      out.push(0x9f);
      out.extend(inner);
    }
    4 => {
      out.push(0xbf);
      out.extend(inner);
    }
    5 => {
      out.push(0x81);
      out.extend(inner);
    }
    6 => {
      out.extend([0xa1, 0x61, b'k']);
      out.extend(inner);
    }
    7 => {
      out.push(0xc0 | *rng.pick(&[0u8, 1, 2, 3, 4, 5, 21, 22, 23]));
      out.extend(inner);
    }
    _ => {
      out.extend([0xd8, 24]); // tag 24: encoded CBOR data item
      out.extend(inner);
    }
  }
  if rng.chance(1, 4) {
    out.push(0xff);
  }
  out
}

const CSV_DOCS: &[&str] = &[
  "", "\n", "a,b\n1,2\n", "a,b\r\n1,2\r\n", "\"a\"\"b\",c\n", "\"unterminated\n1,2\n", "a\"b,c\n", "1,2,3\n4,5\n6\n", ",,,\n", "\"\",\"\"\n",
  "1e999,-1e999,NaN,inf\n", "18446744073709551616,-9223372036854775809\n", "007,+3,0x10,1.,.5, 1\n", "\u{feff}a,b\n", "a,b\n\n\n1,2\n", "\"a\nb\",c\n", "é,😀\n",
  "a\rb\n", "\"a\"b\n", "1;2;3\n", "\t1\t,2\n",
];

const CSV_SCHEMAS: &[&str] = &[
  "a = [* [* any]]\n", "a = [* [tstr, uint]]\n", "a = [? h, * r]\nh = [* tstr]\nr = [int, float, tstr]\n", "a = [* [* (int / float / tstr)]]\n", "a = int\n", "a = [* r]\nr = [a: tstr, ? b: int]\n",
  "a = { * tstr => any }\n", "a = [+ [1*3 number]]\n",
];

fn gen_json_text(rng: &mut Rng) -> String {
  if rng.chance(1, 3) {
    return rng.pick(HOSTILE_JSON).to_string();
  }
  let d = 1 + rng.usize(4);
  let v = dv::gen_value(rng, d, false);
  let mut s = v.to_json();
  if rng.chance(1, 6) {
    s = corpus::mutate_text(rng, &s);
  }
  s
}

fn tpl_tag(t: &str) -> String {
  // the template text itself identifies the input (known findings are keyed on it)
  t.trim_end().replace('\n', " | ")
}

/// one deterministic case per (template, wrapper, validator): fixed documents + a few seeded ones
fn run_template(ctx: &mut Ctx, i: usize) {
  let t = CYCLIC[i / 8];
  let wrap = (i / 2) % 4;
  let cbor = i % 2 == 1;
  let s = match wrap {
    0 => t.to_string(),
    1 => format!("root = {{ v: a }}\n{}", t),
    2 => format!("root = [* a]\n{}", t),
    _ => format!("root = a / tstr\n{}", t),
  };
  let fam = format!("tpl:{}", tpl_tag(t));
  let mut rng = ctx.rng.clone();
  ctx.count("template_cases");
  if wrap == 0 && !cbor {
    parse_all(ctx, &fam, &s);
  }
  if !cbor {
    let mut docs: Vec<String> = ["5", "\"abc\"", "[]", "[1]", "{}", "{\"k\":1}", "null", "true", "1.5", "[[1],[2]]", "9223372036854775807", "\"2020-01-01T00:00:00Z\""]
      .iter()
      .map(|x| x.to_string())
      .collect();
    for _ in 0..4 {
      docs.push(gen_json_text(&mut rng));
    }
    for d in docs {
      let d = match wrap {
        1 => format!("{{\"v\":{}}}", d),
        2 => format!("[{}]", d),
        _ => d,
      };
      val_json(ctx, &fam, &s, &d, None);
    }
  } else {
    let mut docs: Vec<Vec<u8>> = vec![
      vec![0x05], vec![0x63, b'a', b'b', b'c'], vec![0x80], vec![0x81, 0x01], vec![0xa0], vec![0xa1, 0x61, b'k', 0x01], vec![0xf6], vec![0xf5],
      vec![0xf9, 0x3e, 0x00], vec![0x82, 0x81, 0x01, 0x81, 0x02], vec![0x1b, 0xff, 0xff, 0xff, 0xff, 0xff, 0xff, 0xff, 0xff], vec![0xc1, 0x1b, 0xff, 0xff, 0xff, 0xff, 0xff, 0xff, 0xff, 0xff],
      vec![0xc1, 0xfb, 0x7f, 0xf0, 0, 0, 0, 0, 0, 0], vec![0xc0, 0x61, b'x'], vec![0x41, 0x01], vec![0xd8, 0x20, 0x63, b'%', b'%', b'%'],
    ];
    for _ in 0..4 {
      docs.push(hostile_cbor_docs(&mut rng));
    }
    for d in docs {
      let d = match wrap {
        1 => {
          let mut w = vec![0xa1, 0x61, b'v'];
          w.extend(d);
          w
        }
        2 => {
          let mut w = vec![0x81];
          w.extend(d);
          w
        }
        _ => d,
      };
      val_cbor(ctx, &fam, &s, &d, None);
    }
  }
}

fn run(ctx: &mut Ctx, idx: u64) {
  if (idx as usize) < LADDERS.len() {
    run_ladder(ctx, &LADDERS[idx as usize]);
    return;
  }
  let idx = idx - LADDERS.len() as u64;
  if idx < n_template_cases() {
    run_template(ctx, idx as usize);
    return;
  }
  let idx = idx - n_template_cases();
  if (idx as usize) < EXTREME_TEMPLATES.len() * EXTREME_NUMBERS.len() {
    run_extreme(ctx, idx as usize);
    return;
  }
  let mut rng = ctx.rng.clone();
  let corp = corpus::schemas();
  match *rng.pick(&[0u8, 1, 2, 3, 3, 5, 5, 6, 7, 8, 9, 9]) {
    0 | 1 => {
      // mutated corpus text through the parse pipeline
      let mut t = rng.pick(corp).clone();
      if t.len() > 3000 && rng.chance(3, 4) {
        // big fixtures make ParentVisitor slow (quadratic); take a slice of rules
        let lines: Vec<&str> = t.lines().collect();
        let start = rng.usize(lines.len());
        let end = (start + 5 + rng.usize(30)).min(lines.len());
        t = lines[start..end].join("\n") + "\n";
      }
      let k = rng.usize(3);
      for _ in 0..k {
        t = corpus::mutate_text(&mut rng, &t);
      }
      parse_all(ctx, "corpus-mutant", &t);
    }
    2 => {
      let n = 1 + rng.usize(14);
      let t = format!("a = {}", corpus::random_cddlish(&mut rng, n));
      parse_all(ctx, "token-soup", &t);
      let n = 1 + rng.usize(10);
      let t = corpus::random_cddlish(&mut rng, n);
      parse_all(ctx, "token-soup", &t);
    }
    3 => {
      // a head that announces far more than the input holds, in every position a head can occur
      let b = hostile_head_doc(&mut rng);
      dec_cbor(ctx, "hostile-head", &b);
      let s = *rng.pick(&["a = any\n", "a = bstr / tstr / [* any] / { * any => any }\n", "a = #6.2(bstr) / [* bstr] / { * tstr => bstr }\n"]);
      val_cbor(ctx, "hostile-head", s, &b, None);
    }
    5 | 6 => {
      // corpus schema (possibly mutated) x generated documents
      let mut s = rng.pick(corp).clone();
      if s.len() > 3000 {
        s = rng.pick(corp).clone();
      }
      if rng.chance(1, 3) {
        s = corpus::mutate_text(&mut rng, &s);
      }
      let feats: Option<&[&str]> = if rng.chance(1, 5) { Some(&["f1", "f2"]) } else { None };
      for _ in 0..3 {
        let d = gen_json_text(&mut rng);
        val_json(ctx, "corpus-x-doc", &s, &d, feats);
      }
      for _ in 0..3 {
        let d = if rng.bool() {
          hostile_cbor_docs(&mut rng)
        } else {
          let dd = 1 + rng.usize(3);
          let v = dv::gen_value(&mut rng, dd, true);
          let o = dv::random_opts(&mut rng);
          dv::encode(&v, &o, &mut rng)
        };
        val_cbor(ctx, "corpus-x-doc", &s, &d, feats);
      }
    }
    7 => {
      // CSV
      let s = if rng.chance(1, 4) { rng.pick(corp).clone() } else { rng.pick(CSV_SCHEMAS).to_string() };
      let mut d = rng.pick(CSV_DOCS).to_string();
      if rng.bool() {
        d = corpus::mutate_text(&mut rng, &d);
      }
      let h = *rng.pick(&[None, Some(false), Some(true)]);
      val_csv(ctx, "csv", &s, &d, h);
    }
    8 => {
      // raw CBOR bytes into decode + validate
      let n = rng.usize(24);
      let mut b: Vec<u8> = (0..n).map(|_| rng.below(256) as u8).collect();
      if rng.chance(1, 3) {
        b = hostile_cbor_docs(&mut rng);
        let cut = rng.usize(b.len() + 1);
        b.truncate(cut);
      }
      dec_cbor(ctx, "random-bytes", &b);
      val_cbor(ctx, "random-bytes", "a = any\n", &b, None);
    }
    _ => {
      // deep documents against shallow and recursive schemas, within the depth bound
      let n = 1 + rng.usize(64);
      let s = rng.pick(&["a = any\n", "a = [* a] / int\n", "a = [a] / int / { * tstr => a }\n", "a = { ? k: a }\n", "a = [* [* any]]\n"]).to_string();
      let d = if rng.bool() {
        nested_json_array(n, "1")
      } else {
        format!("{}1{}", rep("{\"k\":", n), rep("}", n))
      };
      val_json(ctx, "deep-doc", &s, &d, None);
      let mut c = vec![];
      for _ in 0..n {
        if rng.bool() {
          c.push(0x81);
        } else {
          c.extend([0xa1, 0x61, b'k']);
        }
      }
      c.push(1);
      val_cbor(ctx, "deep-doc", &s, &c, None);
    }
  }
}

/// thorough tier: the first 6000 cases again under AddressSanitizer (see san.rs)
fn post(sum: &mut Summary, tier: Tier, seed: u64) {
  crate::san::asan_phase(&DEF, sum, tier, seed, 6_000);
}
