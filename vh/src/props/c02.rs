//! C02 — CBOR validation verdicts equal RFC 8610 semantics on the core language,
//! independently of the encoding of the data item.

use crate::dv::{self, DV};
use crate::gs::{self, Profile, GS};
use crate::props::c01::{gen_docs, gen_schema};
use crate::reval::Tri;
use crate::rng::{hash_str, Rng};
use crate::sup::{default_shards, Ctx, PropDef, Summary, Tier};
use crate::vcore;
use serde_json::json;

pub static DEF: PropDef = PropDef {
  id: "C02",
  level: "exploration",
  cases,
  run,
  stack_mb: 64,
  case_cpu_s: 10.0,
  crash_is_event: false,
  rule: "Schemas are generated in the core fragment plus the CBOR-only constructs (bstr and byte-string literals, #6.n(t), #n and #7.m, undefined, non-text member keys and key domains uint/int/nint/bstr, boundary integers up to the 64-bit head range); per schema up to 10 data items (heuristic members, near misses incl. duplicated pairs, unrelated values). (a) The canonical encoding's verdict from validate_cbor_from_slice is compared with R-eval (three-valued; floats by value, #0.m..#5.m and #6.<t> unspecified). (b) Metamorphic: each item is additionally encoded in 3 random encodings (indefinite lengths, widened heads, float16/32/64 when value-preserving, chunked strings); every encoding is first checked to decode to the same item in the harness's RFC 8949 model, then all verdicts must equal the canonical one. Disagreements are shrunk on schema and item, steering away from listed constructs. Non-trivial = schema with >= 3 construct tags with both an accepted and a rejected item; distinct by schema text.",
  assumptions: &[
    "R-eval as in C01 with float != int of equal value, bytes, tags and simple values added",
    "map order of the *item* is kept as generated in all encodings (C10 owns order independence)",
  ],
  required,
  post: None,
  shards: default_shards,
};

fn cases(t: Tier) -> u64 {
  match t {
    Tier::Quick => 10_000,
    Tier::Thorough => 120_000,
  }
}

fn required(s: &Summary) -> Option<String> {
  if s.c("model_accept") < 4000 || s.c("model_reject") < 4000 || s.c("encoding_pairs") < 10_000 {
    return Some(format!("accept {} reject {} encoding pairs {}", s.c("model_accept"), s.c("model_reject"), s.c("encoding_pairs")));
  }
  None
}

fn run(ctx: &mut Ctx, _idx: u64) {
  let mut rng = ctx.rng.clone();
  let g = gen_schema(&mut rng, Profile::core(true));
  let st = vcore::schema_text(&g);
  let tags = gs::tags(&g);
  let docs = gen_docs(&g, &mut rng, false, 10);
  let (mut acc, mut rej) = (0, 0);
  for (v, origin) in &docs {
    ctx.eval();
    ctx.count(&format!("origin:{}", origin));
    let canon = {
      let mut r = Rng::new(0);
      dv::encode(v, &dv::CANON, &mut r)
    };
    let i = vcore::impl_cbor_bytes(&st, &canon);
    // (b) encoding independence
    if let Some(iv) = i {
      for _ in 0..3 {
        let o = dv::random_opts(&mut rng);
        let enc = dv::encode(v, &o, &mut rng);
        if enc == canon {
          continue;
        }
        // the harness model must agree that both encodings denote the same item
        match (dv::model_decode(&enc), dv::model_decode(&canon)) {
          (Ok(a), Ok(b)) if a.v == b.v => {}
          _ => {
            ctx.count("encoding_not_equivalent_in_model_skipped");
            continue;
          }
        }
        ctx.count("encoding_pairs");
        let j = vcore::impl_cbor_bytes(&st, &enc);
        if j != Some(iv) {
          // shrink the item while two encodings still disagree (same option set, fresh seed each time)
          let o2 = o.clone();
          let want = iv;
          let pred = |cg: &GS, cv: &DV| {
            let s2 = vcore::schema_text(cg);
            let mut r0 = Rng::new(0);
            let c0 = dv::encode(cv, &dv::CANON, &mut r0);
            let mut r1 = Rng::new(1);
            let c1 = dv::encode(cv, &o2, &mut r1);
            c0 != c1 && vcore::impl_cbor_bytes(&s2, &c0) == Some(want) && matches!(vcore::impl_cbor_bytes(&s2, &c1), Some(x) if x != want)
          };
          let (sg, sv) = if pred(&g, v) { vcore::shrink_pair(&g, v, 3000, &mut |a, b| pred(a, b), &|_, _| 0) } else { (g.clone(), v.clone()) };
          let sig = vcore::sig_of("encoding-dependent", &sg, &sv);
          ctx.report(
            &sig,
            json!({"schema": st, "item": v.diag(), "canonical_hex": dv::hex(&canon), "other_hex": dv::hex(&enc), "canonical_verdict": iv, "other_verdict": format!("{:?}", j),
              "shrunk_schema": vcore::schema_text(&sg), "shrunk_item": sv.diag()}),
          );
        }
      }
    }
    // (a) reference model
    let m = vcore::model(&g, v, false);
    match m {
      Tri::Unspec => {
        ctx.count("model_unspecified");
        continue;
      }
      Tri::Acc => {
        ctx.count("model_accept");
        acc += 1;
      }
      Tri::Rej => {
        ctx.count("model_reject");
        rej += 1;
      }
    }
    let i = match i {
      Some(b) => b,
      None => {
        ctx.count("impl_no_verdict_skipped");
        continue;
      }
    };
    if i == (m == Tri::Acc) {
      ctx.count("agree");
      ctx.sample(if i { "agree-accept" } else { "agree-reject" }, 2, || json!({"schema": st, "item": v.diag(), "verdict": m.name(), "origin": origin}));
      continue;
    }
    let dir = if i { "false-accept" } else { "false-reject" };
    ctx.count(&format!("disagree:{}", dir));
    let want_impl = i;
    let score = |cg: &GS, cv: &DV| ctx.known_score(&vcore::sig_of(dir, cg, cv));
    let (sg, sv) = vcore::shrink_pair(
      &g,
      v,
      4000,
      &mut |cg, cv| {
        if !gs::wellformed(cg) {
          return false;
        }
        let mm = vcore::model(cg, cv, false);
        if mm == Tri::Unspec || (mm == Tri::Acc) == want_impl {
          return false;
        }
        vcore::impl_cbor(&vcore::schema_text(cg), cv) == Some(want_impl)
      },
      &score,
    );
    let sig = vcore::sig_of(dir, &sg, &sv);
    ctx.report(&sig, json!({"schema": st, "item": v.diag(), "model": m.name(), "implementation": if i {"Ok"} else {"Err(Validation)"}, "shrunk_schema": vcore::schema_text(&sg), "shrunk_doc": sv.diag()}));
  }
  for t in &tags {
    ctx.count(&format!("tag:{}", t));
  }
  if tags.len() >= 3 && acc > 0 && rej > 0 {
    ctx.nontrivial(hash_str(&st));
  }
}
