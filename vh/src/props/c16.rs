//! C16 — comments are recognised only as comments and survive formatting intact.

use crate::gs::{Gen, Printer, Profile, Style};
use crate::props::c06::strip_comments;
use crate::rng::hash_str;
use crate::skel;
use crate::sup::{default_shards, guard, Ctx, PropDef, Summary, Tier};
use serde_json::json;
use std::collections::BTreeMap;

pub static DEF: PropDef = PropDef {
  id: "C16",
  level: "exploration",
  cases,
  run,
  stack_mb: 64,
  case_cpu_s: 60.0,
  crash_is_event: false,
  rule: "Generated derivations are printed with comments at the separator positions of the grammar; every comment carries a unique id at both ends ('; c17 ... e17'), some start with further semicolons (';; c17 ...'), and text / byte-string literals contain ';', quotes and comment-like text. Recognition (on the AST of the accepted text): every comment string stored in the AST must be the text of exactly one printed comment, unchanged; no printed comment is attached twice; nothing from inside a literal appears as a comment. Formatting: in T1 = Display(AST), comment tokens are extracted by the harness's own lexer; every comment that the AST holds must occur exactly once in T1 with its text unchanged and with nothing appended after its end marker (absorbed code); T1 must parse and Skel(parse(T1)) = Skel(parse(D)). Signatures: event kind + the token classes before and after the comment in D. Non-trivial = accepted document with >= 2 comments; distinct by text.",
  assumptions: &[
    "comments of the AST are collected from the Debug rendering of the AST (all Comments(..) fields), so that no comment field can be missed by a hand-written walker",
    "a comment the parser does not attach to any node is not required to survive formatting (the property speaks of attached comments)",
  ],
  required,
  post: None,
  shards: default_shards,
};

fn cases(t: Tier) -> u64 {
  match t {
    Tier::Quick => 6_000,
    Tier::Thorough => 300_000,
  }
}

fn required(s: &Summary) -> Option<String> {
  if s.c("accepted_docs_with_comments") < 1500 || s.c("ast_comments_checked") < 5000 || s.c("template_comments") < 5000 {
    return Some(format!("docs {} comments {}", s.c("accepted_docs_with_comments"), s.c("ast_comments_checked")));
  }
  None
}

/// all strings inside `Comments([...])` of a `{:?}` rendering
fn debug_comments(dbg: &str) -> Vec<String> {
  let mut out = vec![];
  let mut rest = dbg;
  while let Some(p) = rest.find("Comments(") {
    rest = &rest[p + 9..];
    // parse a debug list of strings up to the matching ']'
    let b: Vec<char> = rest.chars().collect();
    let mut i = 0;
    while i < b.len() && b[i] != '[' {
      i += 1;
    }
    i += 1;
    loop {
      while i < b.len() && (b[i].is_whitespace() || b[i] == ',') {
        i += 1;
      }
      if i >= b.len() || b[i] == ']' {
        break;
      }
      if b[i] != '"' {
        break;
      }
      i += 1;
      let mut s = String::new();
      while i < b.len() && b[i] != '"' {
        if b[i] == '\\' && i + 1 < b.len() {
          i += 1;
          match b[i] {
            'n' => s.push('\n'),
            'r' => s.push('\r'),
            't' => s.push('\t'),
            '\\' => s.push('\\'),
            '"' => s.push('"'),
            '\'' => s.push('\''),
            '0' => s.push('\0'),
            'u' => {
              // \u{hex}
              let mut h = String::new();
              i += 2;
              while i < b.len() && b[i] != '}' {
                h.push(b[i]);
                i += 1;
              }
              if let Some(c) = u32::from_str_radix(&h, 16).ok().and_then(char::from_u32) {
                s.push(c);
              }
            }
            c => s.push(c),
          }
        } else {
          s.push(b[i]);
        }
        i += 1;
      }
      i += 1;
      out.push(s);
    }
  }
  out
}

/// comment tokens of a CDDL text (harness lexer: ';' outside text / byte strings up to the line end)
fn comment_tokens(t: &str) -> Vec<String> {
  let mut out = vec![];
  let mut it = t.chars().peekable();
  let mut q: Option<char> = None;
  while let Some(c) = it.next() {
    match q {
      Some(qc) => {
        if c == '\\' {
          it.next();
        } else if c == qc {
          q = None;
        }
      }
      None => match c {
        '"' | '\'' => q = Some(c),
        ';' => {
          let mut s = String::new();
          while let Some(&n) = it.peek() {
            if n == '\n' {
              break;
            }
            s.push(n);
            it.next();
          }
          out.push(s.trim_end_matches('\r').to_string());
        }
        _ => {}
      },
    }
  }
  out
}

fn tok_class(s: &str) -> String {
  let s = s.trim();
  if s.is_empty() {
    return "none".into();
  }
  let c = s.chars().next().unwrap();
  for p in ["=>", "//=", "/=", "//", "...", ".."] {
    if s.starts_with(p) {
      return p.to_string();
    }
  }
  if "=/,[]{}()<>:^~&#?*+".contains(c) {
    return c.to_string();
  }
  if c == '"' || c == '\'' {
    return "lit".into();
  }
  if c == '.' {
    return "ctl".into();
  }
  if c.is_ascii_digit() || c == '-' {
    return "num".into();
  }
  "name".into()
}

/// token classes before and after the comment with id `id` in D
fn slot(d_nocomments_around: &str, offset: usize, end: usize) -> (String, String) {
  let before = strip_comments(&d_nocomments_around[..offset]);
  let prev = before.trim_end();
  // last token (on characters, the text may contain multi-byte characters)
  let pt = {
    let cs: Vec<char> = prev.chars().collect();
    if cs.is_empty() {
      "none".to_string()
    } else {
      let last = cs[cs.len() - 1];
      let idc = |c: char| c.is_ascii_alphanumeric() || "_-.$@".contains(c);
      if idc(last) {
        let mut start = cs.len();
        while start > 0 && idc(cs[start - 1]) {
          start -= 1;
        }
        tok_class(&cs[start..].iter().collect::<String>())
      } else if last == '"' || last == '\'' {
        "lit".into()
      } else {
        let s3: String = cs[cs.len().saturating_sub(3)..].iter().collect();
        let mut r = if last.is_ascii() { last.to_string() } else { "lit".to_string() };
        for p in ["//=", "...", "=>", "/=", "//", ".."] {
          if s3.ends_with(p) {
            r = p.to_string();
            break;
          }
        }
        r
      }
    }
  };
  let after = strip_comments(&d_nocomments_around[end..]);
  (pt, tok_class(after.trim_start()))
}

const ATOMS: &[&str] = &["int", "tstr", "bool", "0", "1", "\"x;y\"", "[ int ]", "{ k: int }", "uint .size 2", "1..5", "'b;c'", "nil", "float", "[ * tstr ]", "-3", "1.5"];

/// Comment placements that the formatter is known to carry through (curated): each must survive exactly.
fn template_half(ctx: &mut Ctx) {
  let mut rng = ctx.rng.clone();
  let mut id = 0u32;
  let mut cm = |rng: &mut crate::rng::Rng, ids: &mut Vec<(u32, String)>| -> String {
    id += 1;
    let t = format!("{} c{} {}e{}", if rng.chance(1, 5) { ";;" } else { ";" }, id, rng.pick_str(&["", "note ", "x = y ", "\"q\" ", "a / b ", ") ", "é "]), id);
    ids.push((id, t.clone()));
    t
  };
  let mut ids: Vec<(u32, String)> = vec![];
  let a = |rng: &mut crate::rng::Rng| rng.pick_str(ATOMS).to_string();
  let mut doc = String::new();
  let nrules = 1 + rng.usize(4);
  let mut kinds: Vec<&'static str> = vec![];
  for r in 0..nrules {
    let name = format!("r{}", r);
    let k = *rng.pick(&["before-rule", "after-rule", "alt-trailing", "paren-alt-trailing", "tag-alt-trailing", "array-entry-trailing", "map-entry-trailing", "group-leading", "group-rule", "generic-trailing"]);
    kinds.push(k);
    match k {
      "before-rule" => doc.push_str(&format!("{}\n{} = {}\n", cm(&mut rng, &mut ids), name, a(&mut rng))),
      "after-rule" => doc.push_str(&format!("{} = {} {}\n", name, a(&mut rng), cm(&mut rng, &mut ids))),
      "alt-trailing" => {
        doc.push_str(&format!("{} = {}\n", name, a(&mut rng)));
        for _ in 0..1 + rng.usize(3) {
          doc.push_str(&format!("  / {} {}\n", a(&mut rng), cm(&mut rng, &mut ids)));
        }
      }
      "paren-alt-trailing" => doc.push_str(&format!("{} = ({} / {} {}\n) / {}\n", name, a(&mut rng), a(&mut rng), cm(&mut rng, &mut ids), a(&mut rng))),
      "tag-alt-trailing" => doc.push_str(&format!("{} = #6.{}({} / {} {}\n) / {}\n", name, rng.below(100), a(&mut rng), a(&mut rng), cm(&mut rng, &mut ids), a(&mut rng))),
      "array-entry-trailing" => {
        doc.push_str(&format!("{} = [\n", name));
        for _ in 0..1 + rng.usize(4) {
          doc.push_str(&format!("  {}, {}\n", a(&mut rng), cm(&mut rng, &mut ids)));
        }
        doc.push_str("]\n");
      }
      "map-entry-trailing" => {
        doc.push_str(&format!("{} = {{\n", name));
        for i in 0..1 + rng.usize(4) {
          doc.push_str(&format!("  {}k{}: {}, {}\n", if rng.chance(1, 3) { "? " } else { "" }, i, a(&mut rng), cm(&mut rng, &mut ids)));
        }
        doc.push_str("}\n");
      }
      "group-leading" => {
        doc.push_str(&format!("{} = [\n", name));
        for _ in 0..1 + rng.usize(3) {
          doc.push_str(&format!("  {}\n  {},\n", cm(&mut rng, &mut ids), a(&mut rng)));
        }
        doc.push_str("]\n");
      }
      "group-rule" => doc.push_str(&format!("{} = (\n  k: {}, {}\n  j: {} {}\n)\n", name, a(&mut rng), cm(&mut rng, &mut ids), a(&mut rng), cm(&mut rng, &mut ids))),
      _ => doc.push_str(&format!("{}<t> = [ t, {} ] {}\n", name, a(&mut rng), cm(&mut rng, &mut ids))),
    }
  }
  ctx.eval();
  ctx.count("template_docs");
  let r = guard(|| cddl::cddl_from_str(&doc, false).map(|a| (format!("{:?}", a), skel::skel_ast(&a), a.to_string())));
  let (dbg, sk, t1) = match r {
    Ok(Ok(x)) => x,
    Ok(Err(e)) => {
      ctx.report("template:rejected", json!({"text": doc, "error": e}));
      return;
    }
    Err(_) => return,
  };
  ctx.nontrivial(hash_str(&doc));
  let kinds_s = {
    let mut k = kinds.clone();
    k.sort();
    k.dedup();
    k.join("+")
  };
  let ast: Vec<String> = debug_comments(&dbg).into_iter().filter(|s| s != "\n").collect();
  let toks = comment_tokens(&t1);
  let mut ok = true;
  for (cid, full) in &ids {
    let body = full[1..].to_string();
    ctx.count("template_comments");
    let n_ast = ast.iter().filter(|c| c.trim_end_matches('\r') == body).count();
    if n_ast != 1 {
      ok = false;
      ctx.report(&format!("template:ast-comment-count-{}:{}", n_ast.min(2), kinds_s), json!({"text": doc, "comment": full}));
      break;
    }
    let hits: Vec<&String> = toks.iter().filter(|t| t.contains(&format!("c{} ", cid))).collect();
    let bt = body.trim();
    let kind = if hits.is_empty() {
      Some("lost")
    } else if hits.len() > 1 {
      Some("duplicated")
    } else if hits[0].trim() == bt {
      None
    } else if hits[0].trim().starts_with(bt) {
      Some("absorbed-code")
    } else {
      Some("text-changed")
    };
    if let Some(k) = kind {
      ok = false;
      ctx.report(&format!("template:format-comment-{}:{}", k, kinds_s), json!({"text": doc, "comment": full, "formatted": t1}));
      break;
    }
  }
  match guard(|| cddl::cddl_from_str(&t1, false).map(|a| skel::skel_ast(&a))) {
    Ok(Ok(s2)) if s2 == sk => {}
    Ok(Ok(_)) => {
      ok = false;
      ctx.report(&format!("template:format-changes-code:{}", kinds_s), json!({"text": doc, "formatted": t1}));
    }
    Ok(Err(e)) => {
      ok = false;
      ctx.report(&format!("template:format-output-does-not-parse:{}", kinds_s), json!({"text": doc, "formatted": t1, "error": e}));
    }
    Err(_) => {}
  }
  if ok {
    ctx.count("template_held");
    ctx.sample("template", 2, || json!({"text": doc, "formatted": t1, "placements": kinds}));
  }
}

fn run(ctx: &mut Ctx, idx: u64) {
  if idx % 2 == 1 {
    template_half(ctx);
    return;
  }
  let mut rng = ctx.rng.clone();
  let g = {
    let mut gen = Gen::new(&mut rng, Profile::syntax());
    gen.allow_any_hash = false;
    gen.allow_paren_key = false;
    gen.allow_bare_group_rule = false;
    gen.schema()
  };
  let mut style = Style::random(&mut rng, true);
  style.comment_pct = *rng.pick(&[10, 25, 40]);
  let (text, printed) = {
    let mut p = Printer::new(&mut rng, style);
    p.semicolon_comments = true;
    p.doc(&g);
    (p.out.clone(), p.comments.clone())
  };
  ctx.eval();
  let r = guard(|| {
    cddl::cddl_from_str(&text, false).map(|a| {
      let dbg = format!("{:?}", a);
      let t1 = a.to_string();
      (dbg, skel::skel_ast(&a), t1)
    })
  });
  let (dbg, sk, t1) = match r {
    Err(p) => {
      ctx.count("panics_left_to_C05");
      ctx.note(format!("panic (C05 owns this): {}", crate::api::norm_panic(&p)));
      return;
    }
    Ok(Err(_)) => {
      ctx.count("rejected_docs_skipped");
      return;
    }
    Ok(Ok(x)) => x,
  };
  if printed.is_empty() {
    ctx.count("accepted_docs_without_comments");
    return;
  }
  ctx.count("accepted_docs_with_comments");
  if printed.len() >= 2 {
    ctx.nontrivial(hash_str(&text));
  }
  // printed comment text as the parser stores it: everything after the first ';'
  let by_text: BTreeMap<String, u32> = printed.iter().map(|c| (c.text[1..].to_string(), c.id)).collect();
  let slots: BTreeMap<u32, (String, String)> = printed.iter().map(|c| (c.id, slot(&text, c.offset, c.offset + c.text.len()))).collect();
  // is the comment inside an array / map / &( ) group? (the harness lexer tracks brackets outside literals and comments)
  let in_group: BTreeMap<u32, bool> = {
    let mut m = BTreeMap::new();
    let nc = text.clone();
    let mut depth: i32 = 0;
    let mut paren_group: Vec<bool> = vec![];
    let bytes: Vec<(usize, char)> = nc.char_indices().collect();
    let mut q: Option<char> = None;
    let mut i = 0;
    let mut prev_sig: char = ' ';
    let mut by_off: BTreeMap<usize, u32> = printed.iter().map(|c| (c.offset, c.id)).collect();
    while i < bytes.len() {
      let (off, c) = bytes[i];
      match q {
        Some(qc) => {
          if c == '\\' {
            i += 1;
          } else if c == qc {
            q = None;
          }
        }
        None => match c {
          '"' | '\'' => q = Some(c),
          ';' => {
            if let Some(id) = by_off.remove(&off) {
              m.insert(id, depth > 0);
            }
            while i < bytes.len() && bytes[i].1 != '\n' {
              i += 1;
            }
          }
          '[' | '{' => depth += 1,
          ']' | '}' => depth -= 1,
          '(' => {
            let g = prev_sig == '&';
            paren_group.push(g);
            if g {
              depth += 1;
            }
          }
          ')' => {
            if paren_group.pop() == Some(true) {
              depth -= 1;
            }
          }
          _ => {}
        },
      }
      if !c.is_whitespace() && q.is_none() {
        prev_sig = c;
      }
      i += 1;
    }
    m
  };
  let sl = |id: u32| {
    let (a, b) = slots.get(&id).cloned().unwrap_or_default();
    format!("{},prev.{},next.{}", if in_group.get(&id).copied().unwrap_or(true) { "in-group" } else { "top" }, a, b)
  };
  // --- recognition
  let ast_comments: Vec<String> = debug_comments(&dbg).into_iter().filter(|s| s != "\n").collect();
  let mut attached: BTreeMap<u32, u32> = BTreeMap::new();
  let mut seen_sigs = std::collections::BTreeSet::new();
  for c in &ast_comments {
    ctx.count("ast_comments_checked");
    match by_text.get(c.trim_end_matches('\r')) {
      Some(id) => *attached.entry(*id).or_insert(0) += 1,
      None => {
        // altered text or not a comment at all
        let id = printed.iter().find(|p| c.contains(&format!("c{} ", p.id)) || c.ends_with(&format!("e{}", p.id))).map(|p| p.id);
        let sig = match id {
          Some(i) => format!("ast-comment-text-altered:{}", sl(i)),
          None => "ast-comment-not-a-printed-comment:".to_string(),
        };
        if seen_sigs.insert(sig.clone()) {
          ctx.report(&sig, json!({"text": text, "ast_comment": c}));
        }
      }
    }
  }
  for (id, n) in &attached {
    if *n > 1 {
      let sig = format!("comment-attached-twice:{}", sl(*id));
      if seen_sigs.insert(sig.clone()) {
        ctx.report(&sig, json!({"text": text, "comment_id": id, "times": n}));
      }
    }
  }
  ctx.add("comments_printed", printed.len() as u64);
  ctx.add("comments_attached", attached.len() as u64);
  // --- formatting
  let toks = comment_tokens(&t1);
  let mut held = true;
  for (id, _) in &attached {
    let p = printed.iter().find(|p| p.id == *id).unwrap();
    let body = p.text[1..].trim().to_string();
    let endm = format!("e{}", id);
    let hits: Vec<&String> = toks.iter().filter(|t| t.contains(&format!("c{} ", id)) || t.trim_end().ends_with(&endm) || t.contains(&format!(" {} ", endm))).collect();
    let sig = if hits.is_empty() {
      Some(format!("format-comment-lost:{}", sl(*id)))
    } else if hits.len() > 1 {
      Some(format!("format-comment-duplicated:{}", sl(*id)))
    } else {
      let t = hits[0].trim();
      if t == body {
        None
      } else if t.starts_with(&body) {
        Some(format!("format-comment-absorbed-code:{}", sl(*id)))
      } else {
        Some(format!("format-comment-text-changed:{}", sl(*id)))
      }
    };
    if let Some(sig) = sig {
      held = false;
      if seen_sigs.insert(sig.clone()) {
        ctx.report(&sig, json!({"text": text, "comment": p.text, "formatted": t1, "tokens_matching": hits}));
      }
    }
  }
  match guard(|| cddl::cddl_from_str(&t1, false).map(|a| skel::skel_ast(&a))) {
    Ok(Ok(s2)) => {
      if s2 != sk {
        held = false;
        let (w, o) = skel::first_diff(&sk, &s2).map(|(_, w, o)| (w, o)).unwrap_or_default();
        ctx.report(&format!("format-changes-code:{}", skel::diff_sig(&w, &o)), json!({"text": text, "formatted": t1}));
      }
    }
    Ok(Err(e)) => {
      held = false;
      ctx.report("format-output-does-not-parse:", json!({"text": text, "formatted": t1, "error": e}));
    }
    Err(_) => {}
  }
  if held {
    ctx.count("held");
    ctx.sample("held", 2, || json!({"text": text, "formatted": t1, "comments_attached": attached.len()}));
  }
}
