//! C18 — the command-line tool reports exactly what the library decides.
//!
//! The freshly built binary (target/cli/debug/cddl, built from /repo's working tree by
//! ./check) is run on generated directories of schema + documents; every reported line
//! and the exit status are compared with the library calls made by this harness on the
//! same bytes with the same features.

use crate::api::{self, V};
use crate::dv::{self, DV};
use crate::rng::{hash_str, Rng};
use crate::sup::{Ctx, PropDef, Summary, Tier, VERIF};
use serde_json::json;
use std::io::Write;
use std::process::{Command, Stdio};

pub static DEF: PropDef = PropDef {
  id: "C18",
  level: "exploration",
  cases,
  run,
  stack_mb: 64,
  case_cpu_s: 60.0,
  crash_is_event: false,
  rule: "Per case a directory is generated with a schema (plain, using .feature so that the --features list changes verdicts, first type rule generic, only group rules, not compiling) and 1..4 documents per route (JSON files, CBOR files, CSV files with/without --csv-header, stdin with UTF-8 JSON / non-UTF-8 CBOR / CBOR that is valid UTF-8), some paths missing; the tool is run with and without --ci and with a random --features list. Oracle = the library call on the same bytes with the same features (stdin: JSON if the bytes are UTF-8, else CBOR, as documented). Checked: each 'Validation of <path> is successful / failed' line against the library verdict; under --ci the exit status is non-zero exactly when some document fails, is missing or the schema does not compile (and every document before the first failure is reported); without --ci every existing document is reported. 'compile-cddl' exit status 0 <=> cddl_from_str Ok. Non-trivial = invocation with >= 2 documents; distinct by argument vector + file contents.",
  assumptions: &["the binary is rebuilt from /repo's working tree by ./check before this property runs", "log lines are matched after stripping ANSI colour codes"],
  required,
  post: None,
  shards: |_| 8,
};

fn cases(t: Tier) -> u64 {
  match t {
    Tier::Quick => 600,
    Tier::Thorough => 60_000,
  }
}

fn required(s: &Summary) -> Option<String> {
  if s.c("invocations") < 500 || s.c("document_lines_checked") < 800 {
    return Some(format!("invocations {} lines {}", s.c("invocations"), s.c("document_lines_checked")));
  }
  None
}

fn strip_ansi(s: &str) -> String {
  let mut o = String::new();
  let mut it = s.chars().peekable();
  while let Some(c) = it.next() {
    if c == '\u{1b}' {
      while let Some(&n) = it.peek() {
        it.next();
        if n.is_ascii_alphabetic() {
          break;
        }
      }
    } else {
      o.push(c);
    }
  }
  o
}

const SCHEMAS: &[(&str, &str)] = &[
  ("plain", "doc = { name: tstr, ? age: uint, * tstr => any }\n"),
  ("array", "doc = [ + [ tstr, int ] ]\n"),
  ("scalar", "doc = int / tstr\n"),
  ("feature", "doc = JC<\"v\", 2>\nJC<J, C> = J .feature \"json\" / C .feature \"cbor\"\n"),
  ("feature2", "doc = { a: int, ? b: tstr .feature \"extra\" } / ([ int ] .feature \"arr\")\n"),
  ("generic-first", "pair<k, v> = { k => v }\ndoc = pair<tstr, int> / int\n"),
  ("groups-only", "g = ( a: int, b: tstr )\n"),
  ("generic-only", "p<t> = [ t ]\n"),
  ("broken", "doc = { name: tstr \n"),
  ("csv", "doc = [ * [ tstr, int ] ]\n"),
  ("csv-header", "doc = [ [ tstr, tstr ], * [ tstr, int ] ]\n"),
];

fn gen_json(rng: &mut Rng) -> String {
  match rng.below(10) {
    0 => "{\"name\":\"x\"}".into(),
    1 => "{\"name\":\"x\",\"age\":3,\"z\":null}".into(),
    2 => "{\"name\":1}".into(),
    3 => "[[\"a\",1],[\"b\",2]]".into(),
    4 => "5".into(),
    5 => "\"v\"".into(),
    6 => "2".into(),
    7 => "{\"a\":1,\"b\":\"x\"}".into(),
    8 => "{\"name\":".into(), // malformed
    _ => "[1]".into(),
  }
}

fn gen_cbor(rng: &mut Rng) -> Vec<u8> {
  let v = match rng.below(9) {
    0 => DV::Map(vec![(DV::Text("name".into()), DV::Text("x".into()))]),
    1 => DV::Map(vec![(DV::Text("name".into()), DV::Int(1))]),
    2 => DV::Array(vec![DV::Array(vec![DV::Text("a".into()), DV::Int(1)])]),
    3 => DV::Int(5),
    4 => DV::Text("v".into()),
    5 => DV::Int(2),
    6 => DV::Map(vec![(DV::Text("a".into()), DV::Int(1))]),
    7 => DV::Array(vec![DV::Int(1)]),
    _ => DV::Float(1.5),
  };
  let mut r = Rng::new(rng.next_u64());
  let o = dv::random_opts(&mut r);
  let mut b = dv::encode(&v, &o, &mut r);
  if rng.chance(1, 10) {
    b.pop();
  }
  b
}

fn gen_csv(rng: &mut Rng) -> String {
  rng.pick_str(&["a,1\nb,2\n", "name,count\na,1\n", "a,x\n", "a,1\r\nb,2\r\n", "\"q,\"\"r\",5\n", "a\n", ""]).to_string()
}

struct Doc {
  route: &'static str, // json | cbor | csv
  path: String,
  exists: bool,
  bytes: Vec<u8>,
}

fn lib_verdict(schema: &str, d: &Doc, feats: Option<&[&str]>, csv_header: bool) -> Option<bool> {
  let r = match d.route {
    "json" => match std::str::from_utf8(&d.bytes) {
      Ok(t) => api::vjson(schema, t, feats),
      Err(_) => return Some(false), // fs::read_to_string fails: treated by the tool as an I/O error (not compared)
    },
    "cbor" => api::vcbor(schema, &d.bytes, feats),
    _ => match std::str::from_utf8(&d.bytes) {
      Ok(t) => api::vcsv(schema, t, if csv_header { Some(true) } else { None }, feats),
      Err(_) => return Some(false),
    },
  };
  match r {
    Ok(V::Ok) => Some(true),
    Ok(_) => Some(false),
    Err(_) => None,
  }
}

fn run(ctx: &mut Ctx, idx: u64) {
  let mut rng = ctx.rng.clone();
  let bin = format!("{}/target/cli/debug/cddl", VERIF);
  if !std::path::Path::new(&bin).exists() {
    ctx.sum.inconclusive.push("HARNESS the CLI binary was not built (./check builds it before C18)".into());
    return;
  }
  let dir = format!("{}/target/scratch/c18-{}-{}", VERIF, std::process::id(), idx);
  let _ = std::fs::remove_dir_all(&dir);
  std::fs::create_dir_all(&dir).expect("mkdir");
  let (sname, schema) = *rng.pick(SCHEMAS);
  let spath = format!("{}/schema.cddl", dir);
  std::fs::write(&spath, schema).unwrap();
  let compiles = matches!(api::vjson(schema, "0", None), Ok(V::Ok) | Ok(V::Invalid(_)));

  // compile-cddl
  if idx % 5 == 0 {
    ctx.eval();
    ctx.count("invocations");
    let out = Command::new(&bin).args(["compile-cddl", "--cddl", &spath]).stdin(Stdio::null()).output().expect("run cli");
    let lib_ok = cddl::cddl_from_str(schema, false).is_ok();
    if out.status.success() != lib_ok {
      ctx.report(&format!("compile-cddl:exit-{}-but-parser-{}", if out.status.success() { "zero" } else { "nonzero" }, if lib_ok { "accepts" } else { "rejects" }), json!({"schema": schema, "status": format!("{:?}", out.status)}));
    } else {
      ctx.count("compile_cddl_agree");
    }
  }

  // validate
  let features: Vec<&str> = match rng.below(5) {
    0 => vec![],
    1 => vec!["json"],
    2 => vec!["cbor"],
    3 => vec!["extra", "arr"],
    _ => vec!["json", "cbor", "extra"],
  };
  let feats: Option<&[&str]> = if features.is_empty() { None } else { Some(&features) };
  let ci = rng.bool();
  let csv_header = rng.chance(1, 3);
  let mut docs: Vec<Doc> = vec![];
  let mut k = 0;
  let mut add = |route: &'static str, bytes: Vec<u8>, rng: &mut Rng, docs: &mut Vec<Doc>| {
    k += 1;
    let exists = !rng.chance(1, 12);
    let path = format!("{}/d{}.{}", dir, k, route);
    if exists {
      std::fs::write(&path, &bytes).unwrap();
    }
    docs.push(Doc { route, path, exists, bytes });
  };
  let routes = rng.below(7);
  if routes == 0 || routes == 3 || routes == 6 {
    for _ in 0..1 + rng.usize(3) {
      let b = gen_json(&mut rng).into_bytes();
      add("json", b, &mut rng, &mut docs);
    }
  }
  if routes == 1 || routes == 3 || routes == 4 || routes == 6 {
    for _ in 0..1 + rng.usize(3) {
      let b = gen_cbor(&mut rng);
      add("cbor", b, &mut rng, &mut docs);
    }
  }
  if routes == 2 || routes == 4 {
    for _ in 0..1 + rng.usize(2) {
      let b = gen_csv(&mut rng).into_bytes();
      add("csv", b, &mut rng, &mut docs);
    }
  }
  let stdin_bytes: Option<Vec<u8>> = if routes == 5 || docs.is_empty() || rng.chance(1, 6) {
    Some(match rng.below(3) {
      0 => gen_json(&mut rng).into_bytes(),
      1 => gen_cbor(&mut rng),
      _ => vec![0x05], // CBOR that is valid UTF-8: documented to be read as JSON text
    })
  } else {
    None
  };
  let mut args: Vec<String> = vec![];
  if ci {
    args.push("--ci".into());
  }
  args.push("validate".into());
  args.extend(["--cddl".to_string(), spath.clone()]);
  if !features.is_empty() {
    args.extend(["--features".to_string(), features.join(",")]);
  }
  for d in &docs {
    args.extend([format!("--{}", d.route), d.path.clone()]);
  }
  if csv_header {
    args.push("--csv-header".into());
  }
  if stdin_bytes.is_some() {
    args.push("--stdin".into());
  }
  ctx.eval();
  ctx.count("invocations");
  ctx.count(&format!("schema:{}", sname));
  let mut child = Command::new(&bin).args(&args).stdin(Stdio::piped()).stdout(Stdio::piped()).stderr(Stdio::piped()).spawn().expect("spawn cli");
  if let Some(mut si) = child.stdin.take() {
    if let Some(b) = &stdin_bytes {
      let _ = si.write_all(b);
    }
  }
  let out = child.wait_with_output().expect("wait");
  let text = strip_ansi(&format!("{}\n{}", String::from_utf8_lossy(&out.stdout), String::from_utf8_lossy(&out.stderr)));
  if docs.len() >= 2 {
    ctx.nontrivial(hash_str(&format!("{:?}{}", args, schema)));
  }
  let detail = |extra: serde_json::Value| json!({"schema_kind": sname, "schema": schema, "args": args, "exit": out.status.code(), "output": text, "extra": extra});
  // expected per document
  let mut any_bad = !compiles && false;
  let mut first_bad: Option<usize> = None;
  let mut expected: Vec<Option<bool>> = vec![];
  for (i, d) in docs.iter().enumerate() {
    let e = if !d.exists { Some(false) } else { lib_verdict(schema, d, feats, csv_header) };
    if e == Some(false) && first_bad.is_none() {
      first_bad = Some(i);
      any_bad = true;
    }
    expected.push(e);
  }
  let stdin_expected: Option<bool> = stdin_bytes.as_ref().and_then(|b| match std::str::from_utf8(b) {
    Ok(t) => match api::vjson(schema, t, feats) {
      Ok(V::Ok) => Some(true),
      Ok(_) => Some(false),
      Err(_) => None,
    },
    Err(_) => match api::vcbor(schema, b, feats) {
      Ok(V::Ok) => Some(true),
      Ok(_) => Some(false),
      Err(_) => None,
    },
  });
  if stdin_expected == Some(false) {
    any_bad = true;
  }
  // per-document lines
  for (i, d) in docs.iter().enumerate() {
    let ok_line = text.contains(&format!("Validation of {:?} is successful", d.path));
    let fail_line = text.contains(&format!("Validation of {:?} failed", d.path));
    let missing_line = text.contains(&format!("{:?} does not exist", d.path));
    // under --ci nothing after the first failure is processed
    let reached = !ci || first_bad.map(|f| i <= f).unwrap_or(true);
    if !reached {
      continue;
    }
    ctx.count("document_lines_checked");
    let route = d.route;
    if !d.exists {
      if !missing_line {
        ctx.report(&format!("missing-file-not-reported:{}", route), detail(json!({"path": d.path})));
      }
      continue;
    }
    match expected[i] {
      None => ctx.count("library_no_verdict_skipped"),
      Some(true) => {
        if !ok_line || fail_line {
          ctx.report(&format!("library-accepts-tool-does-not-report-success:{}:{}", route, if features.is_empty() { "no-features" } else { "features" }), detail(json!({"path": d.path})));
        } else {
          ctx.count("lines_agree");
        }
      }
      Some(false) => {
        if ok_line || !fail_line {
          ctx.report(&format!("library-rejects-tool-does-not-report-failure:{}:{}", route, if features.is_empty() { "no-features" } else { "features" }), detail(json!({"path": d.path})));
        } else {
          ctx.count("lines_agree");
        }
      }
    }
  }
  if let Some(e) = stdin_expected {
    let reached = !ci || first_bad.is_none();
    if reached {
      ctx.count("document_lines_checked");
      let ok_line = text.contains("Validation from stdin is successful");
      let fail_line = text.contains("Validation from stdin failed");
      let kind = if std::str::from_utf8(stdin_bytes.as_ref().unwrap()).is_ok() { "stdin-json" } else { "stdin-cbor" };
      if e && (!ok_line || fail_line) {
        ctx.report(&format!("library-accepts-tool-does-not-report-success:{}:{}", kind, if features.is_empty() { "no-features" } else { "features" }), detail(json!({})));
      } else if !e && (ok_line || !fail_line) {
        ctx.report(&format!("library-rejects-tool-does-not-report-failure:{}:{}", kind, if features.is_empty() { "no-features" } else { "features" }), detail(json!({})));
      } else {
        ctx.count("lines_agree");
      }
    }
  }
  // exit status under --ci
  if ci {
    let all_known = expected.iter().all(|e| e.is_some()) && (stdin_bytes.is_none() || stdin_expected.is_some());
    if all_known {
      ctx.count("ci_exit_checked");
      let want_nonzero = any_bad;
      if out.status.success() == want_nonzero {
        ctx.report(&format!("ci-exit-status:{}-although-{}:{}", if out.status.success() { "zero" } else { "nonzero" }, if want_nonzero { "a-document-fails" } else { "all-documents-pass" }, sname), detail(json!({"expected_per_document": expected, "stdin_expected": stdin_expected})));
      } else {
        ctx.count("ci_exit_agree");
      }
    }
  }
  ctx.sample("invocation", 3, || json!({"args": args, "exit": out.status.code(), "schema_kind": sname, "documents": docs.len()}));
  let _ = std::fs::remove_dir_all(&dir);
}
