//! C01 — JSON validation verdicts equal RFC 8610 semantics on the core language.

use crate::dv::DV;
use crate::gs::{self, Gen, Profile, GS};
use crate::gval::{self, Wit};
use crate::reval::Tri;
use crate::rng::hash_str;
use crate::sup::{default_shards, Ctx, PropDef, Summary, Tier};
use crate::vcore;
use serde_json::json;

pub static DEF: PropDef = PropDef {
  id: "C01",
  level: "exploration",
  cases,
  run,
  stack_mb: 64,
  case_cpu_s: 10.0,
  crash_is_event: false,
  rule: "Schemas are generated in the core fragment (prelude scalars, literals, integer/float ranges, type choices, arrays with every occurrence form, nested and named groups, group choices, maps with literal keys, optional members, cuts, wildcard tables, .lt/.le/.gt/.ge/.eq/.ne/.size, guarded recursion; root = first type rule) and printed; per schema up to 10 JSON documents: heuristic members of the root type, single/double-edit near misses of them, and unrelated values. The expected verdict is computed by the independent evaluator R-eval (vh/src/reval.rs: type choice = union, PEG sequence match for arrays, existence of a pair-to-member assignment with occurrence bounds and cut semantics for maps, least fixed point for recursion); cases R-eval leaves open (integral float vs integer, constructs outside the fragment) are counted as unspecified. Implementation verdict: validate_json_from_str(schema, json, None). A disagreement is shrunk on schema and document before its signature (direction + construct tags of the shrunk schema + value classes of the shrunk document) is looked up. Non-trivial = schema with >= 3 construct tags for which this run observed both an accepted and a rejected document; distinct by schema text.",
  assumptions: &[
    "R-eval transcribes RFC 8610 sections 2-3 and Appendix D by hand; where it returns 'unspecified' no verdict is produced",
    "array groups follow the PEG reading the crate documents (greedy occurrences, ordered // locked in, zero-width guard)",
    "JSON numbers: an integer token is an int, a token with fraction or exponent a float; integral floats are not generated and are unspecified against int types",
  ],
  required,
  post: None,
  shards: default_shards,
};

fn cases(t: Tier) -> u64 {
  match t {
    Tier::Quick => 12_000,
    Tier::Thorough => 150_000,
  }
}

fn required(s: &Summary) -> Option<String> {
  if s.c("model_accept") < 5000 || s.c("model_reject") < 5000 {
    return Some(format!("accept {} reject {}", s.c("model_accept"), s.c("model_reject")));
  }
  None
}

pub fn gen_schema(rng: &mut crate::rng::Rng, p: Profile) -> GS {
  let mut g = Gen::new(rng, p);
  g.allow_any_hash = false;
  g.allow_paren_key = false;
  g.allow_bare_group_rule = false;
  g.schema()
}

/// one time in five a schema of the hand-written interaction corpus (seeds/*.txt, small fixtures)
/// instead of a generated one: constructs interact there in ways the generator rarely produces
pub fn gen_schema_mixed(rng: &mut crate::rng::Rng, p: Profile) -> (GS, bool) {
  let trees = crate::corpus::trees_for(false);
  if !trees.is_empty() && rng.chance(1, 5) {
    (rng.pick(trees).clone(), true)
  } else {
    (gen_schema(rng, p), false)
  }
}

/// documents for one schema: members, near misses, unrelated
pub fn gen_docs(g: &GS, rng: &mut crate::rng::Rng, json: bool, n: usize) -> Vec<(DV, &'static str)> {
  let mut out: Vec<(DV, &'static str)> = vec![];
  let mut members = vec![];
  for _ in 0..n {
    let mut w = Wit::new(g, rng, json);
    if let Some(v) = w.root() {
      if !json || v.is_json() {
        members.push(v);
      }
    }
    if members.len() >= n / 3 + 1 {
      break;
    }
  }
  for m in &members {
    out.push((m.clone(), "member"));
  }
  for m in &members {
    for _ in 0..2 {
      let v = gval::near_miss(m, rng, json);
      if (json && v.is_json()) || (!json && gval::cbor_encodable(&v)) {
        out.push((v, "near-miss"));
      }
    }
  }
  while out.len() < n {
    let mut w = Wit::new(g, rng, json);
    let v = w.any(2);
    if !json || v.is_json() {
      out.push((v, "unrelated"));
    }
  }
  out.truncate(n);
  out
}

fn run(ctx: &mut Ctx, _idx: u64) {
  let mut rng = ctx.rng.clone();
  let g = gen_schema(&mut rng, Profile::core(false));
  let st = vcore::schema_text(&g);
  let tags = gs::tags(&g);
  let docs = gen_docs(&g, &mut rng, true, 10);
  let (mut acc, mut rej) = (0, 0);
  for (v, origin) in &docs {
    ctx.eval();
    let m = vcore::model(&g, v, true);
    let i = vcore::impl_json(&st, v);
    ctx.count(&format!("origin:{}", origin));
    match m {
      Tri::Unspec => {
        ctx.count("model_unspecified");
        continue;
      }
      Tri::Acc => {
        ctx.count("model_accept");
        acc += 1;
      }
      Tri::Rej => {
        ctx.count("model_reject");
        rej += 1;
      }
    }
    let i = match i {
      Some(b) => b,
      None => {
        ctx.count("impl_no_verdict_skipped");
        continue;
      }
    };
    if i == (m == Tri::Acc) {
      ctx.count("agree");
      ctx.sample(if i { "agree-accept" } else { "agree-reject" }, 2, || json!({"schema": st, "json": v.to_json(), "verdict": m.name(), "origin": origin}));
      continue;
    }
    let dir = if i { "false-accept" } else { "false-reject" };
    ctx.count(&format!("disagree:{}", dir));
    let want_impl = i;
    let known = |cg: &GS, cv: &DV| ctx.known_score(&vcore::sig_of(dir, cg, cv));
    let (sg, sv) = vcore::shrink_pair(
      &g,
      v,
      4000,
      &mut |cg, cv| {
        if !cv.is_json() || !gs::wellformed(cg) {
          return false;
        }
        let mm = vcore::model(cg, cv, true);
        if mm == Tri::Unspec || (mm == Tri::Acc) == want_impl {
          return false;
        }
        vcore::impl_json(&vcore::schema_text(cg), cv) == Some(want_impl)
      },
      &known,
    );
    let sig = vcore::sig_of(dir, &sg, &sv);
    if std::env::var("VH_DEBUG").is_ok() {
      eprintln!("DBG {} | {} | {} || {} | {}", dir, vcore::schema_text(&sg).trim().replace('\n', " ; "), sv.to_json(), st.trim().replace('\n', " ; "), v.to_json());
    }
    ctx.report(&sig, json!({"schema": st, "json": v.to_json(), "model": m.name(), "implementation": if i {"Ok"} else {"Err(Validation)"}, "shrunk_schema": vcore::schema_text(&sg), "shrunk_json": sv.to_json()}));
  }
  for t in &tags {
    ctx.count(&format!("tag:{}", t));
  }
  if tags.len() >= 3 && acc > 0 && rej > 0 {
    ctx.nontrivial(hash_str(&st));
  }
}
