//! C08 — naming, generics, sockets and parentheses are semantically transparent.

use crate::dv::DV;
use crate::gs::{self, Profile, GS};
use crate::props::c01::{gen_docs, gen_schema};
use crate::refac;
use crate::reval::Tri;
use crate::rng::hash_str;
use crate::sup::{default_shards, Ctx, PropDef, Summary, Tier};
use crate::vcore;
use serde_json::json;

pub static DEF: PropDef = PropDef {
  id: "C08",
  level: "exploration",
  cases,
  run,
  stack_mb: 64,
  case_cpu_s: 10.0,
  crash_is_event: false,
  rule: "A schema S over the shared feature set is generated together with up to 8 values (members, near misses, unrelated); a meaning-preserving refactoring rho is applied at a position chosen by the case seed: extract a type sub-expression into a fresh rule, inline a non-recursive rule, abstract a leaf into a generic parameter of a fresh generic rule, turn two array entries into two instantiations gg<T1>, gg<T2> of one fresh generic group rule, split a type choice into '=' plus '/=' increments, route the tail of a choice through a fresh $socket, add redundant parentheses, rename a rule consistently, add unused rules, reorder the rules after the first, extract an inline group into a fresh group rule. For both validators verdict(S, d) must equal verdict(rho(S), d). R-eval is evaluated on both schemas as a guard: if it says the refactoring changed the meaning the case is discarded as a harness error (counted). Disagreements are shrunk on S and d with rho re-applied to every candidate. Non-trivial = refactored schema differs from S and both validators gave verdicts on >= 3 values; distinct by (S, rho(S)) text.",
  assumptions: &[
    "a refactoring is meaning-preserving by construction; R-eval is the cross-check, not the oracle",
    "values are from the JSON data model so that both validators can be driven with the same item",
  ],
  required,
  post: None,
  shards: default_shards,
};

fn cases(t: Tier) -> u64 {
  match t {
    Tier::Quick => 8_000,
    Tier::Thorough => 60_000,
  }
}

fn required(s: &Summary) -> Option<String> {
  if s.c("pairs_compared") < 20_000 {
    return Some(format!("pairs compared {}", s.c("pairs_compared")));
  }
  for k in refac::KINDS {
    if s.c(&format!("applied:{}", k)) < 50 {
      return Some(format!("refactoring {} applied only {} times", k, s.c(&format!("applied:{}", k))));
    }
  }
  None
}

/// signature over the constructs of S *and* rho(S)
fn sig8(dir: &str, kind: &str, k: usize, g: &GS, v: &DV) -> String {
  let mut t: std::collections::BTreeSet<String> = gs::tags(g);
  if let Some(g2) = refac::apply(kind, g, k) {
    t.extend(gs::tags(&g2));
  }
  t.extend(vcore::value_tags(v));
  format!("{}:{}", dir, t.into_iter().collect::<Vec<_>>().join(","))
}

fn verdict(cbor: bool, st: &str, v: &DV) -> Option<bool> {
  if cbor {
    vcore::impl_cbor(st, v)
  } else {
    vcore::impl_json(st, v)
  }
}

fn run(ctx: &mut Ctx, idx: u64) {
  let mut rng = ctx.rng.clone();
  // every fifth case sweeps one schema of the hand-written interaction corpus through every
  // refactoring at its first positions; the others apply one refactoring to a generated schema
  let trees = crate::corpus::trees_for(false);
  if idx % 5 == 4 && !trees.is_empty() {
    let g = trees[(idx / 5) as usize % trees.len()].clone();
    ctx.count("schemas_from_corpus");
    for kind in refac::KINDS {
      for k in 0..4 {
        check(ctx, &mut rng, &g, kind, k);
      }
    }
    return;
  }
  let g = gen_schema(&mut rng, Profile::shared());
  if !gs::wellformed(&g) {
    ctx.count("generated_schema_not_wellformed_skipped");
    return;
  }
  let kind = refac::KINDS[(idx as usize) % refac::KINDS.len()];
  let k = rng.usize(1000);
  check(ctx, &mut rng, &g, kind, k);
}

fn check(ctx: &mut Ctx, rng: &mut crate::rng::Rng, g: &GS, kind: &'static str, k: usize) {
  let g = g.clone();
  let mut rng = rng.clone();
  let g2 = match refac::apply(kind, &g, k) {
    Some(x) if gs::wellformed(&x) && x != g => x,
    _ => {
      ctx.count(&format!("not_applicable:{}", kind));
      return;
    }
  };
  ctx.count(&format!("applied:{}", kind));
  let (st, st2) = (vcore::schema_text(&g), vcore::schema_text(&g2));
  let docs = gen_docs(&g, &mut rng, true, 8);
  let mut compared = 0;
  for (v, _origin) in &docs {
    // guard: the reference evaluator must not see a change of meaning
    let (m0, m1) = (vcore::model(&g, v, true), vcore::model(&g2, v, true));
    if m0 != Tri::Unspec && m1 != Tri::Unspec && m0 != m1 {
      ctx.count("harness_refactoring_changed_model_verdict_discarded");
      ctx.note(format!("refactoring {} changed R-eval's verdict (harness-side, discarded): {} => {}", kind, st.trim().replace('\n', " | "), st2.trim().replace('\n', " | ")));
      continue;
    }
    for cbor in [false, true] {
      ctx.eval();
      let (a, b) = match (verdict(cbor, &st, v), verdict(cbor, &st2, v)) {
        (Some(a), Some(b)) => (a, b),
        _ => {
          ctx.count("no_verdict_skipped");
          continue;
        }
      };
      ctx.count("pairs_compared");
      compared += 1;
      if a == b {
        ctx.count("same_verdict");
        ctx.sample(kind, 1, || json!({"refactoring": kind, "S": st, "rho_S": st2, "value": v.to_json(), "validator": if cbor {"cbor"} else {"json"}, "verdict": a}));
        continue;
      }
      let dir = format!("{}/{}/{}", kind, if cbor { "cbor" } else { "json" }, if a { "ok->err" } else { "err->ok" });
      ctx.count(&format!("changed:{}", kind));
      let score = |cg: &GS, cv: &DV| ctx.known_score(&sig8(&dir, kind, k, cg, cv));
      let (sg, sv) = vcore::shrink_pair(
        &g,
        v,
        3000,
        &mut |cg, cv| {
          if !cv.is_json() || !gs::wellformed(cg) {
            return false;
          }
          let c2 = match refac::apply(kind, cg, k) {
            Some(x) if gs::wellformed(&x) => x,
            _ => return false,
          };
          let (n0, n1) = (vcore::model(cg, cv, true), vcore::model(&c2, cv, true));
          if n0 != Tri::Unspec && n1 != Tri::Unspec && n0 != n1 {
            return false;
          }
          verdict(cbor, &vcore::schema_text(cg), cv) == Some(a) && verdict(cbor, &vcore::schema_text(&c2), cv) == Some(b)
        },
        &score,
      );
      let sg2 = refac::apply(kind, &sg, k).unwrap_or_else(|| sg.clone());
      let sig = sig8(&dir, kind, k, &sg, &sv);
      ctx.report(
        &sig,
        json!({"refactoring": kind, "validator": if cbor {"cbor"} else {"json"}, "S": st, "rho_S": st2, "value": v.to_json(), "verdict_S": a, "verdict_rho_S": b,
          "shrunk_schema": vcore::schema_text(&sg), "shrunk_rho": vcore::schema_text(&sg2), "shrunk_json": sv.to_json(), "rfc_model_on_shrunk": vcore::model(&sg, &sv, true).name()}),
      );
    }
  }
  if compared >= 6 {
    ctx.nontrivial(hash_str(&format!("{}\u{0}{}", st, st2)));
  }
}
