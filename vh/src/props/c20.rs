//! C20 — ParentVisitor returns the syntactic parent of every AST node.

use crate::gs::{Gen, Profile, Style};
use crate::rng::hash_str;
use crate::sup::{default_shards, guard, Ctx, PropDef, Summary, Tier};
use crate::synx::{render, Mode};
use cddl::ast::parent::{Parent, ParentVisitor};
use cddl::ast::*;
use serde_json::json;
use std::collections::BTreeMap;

pub static DEF: PropDef = PropDef {
  id: "C20",
  level: "exploration",
  cases,
  run,
  stack_mb: 64,
  case_cpu_s: 60.0,
  crash_is_event: false,
  rule: "Accepted documents: generated derivations (<= 6 rules, so that identifiers, literals, occurrences and whole sub-expressions repeat within and across rules), documents built by repeating one sub-expression text several times, and small fixtures. ParentVisitor::new must succeed and the document root must have no parent. The harness walks the public AST itself and records, for every (child, parent) pair that has a Parent impl (Rule<CDDL, TypeRule/GroupRule<Rule, Identifier/GenericParams/Type<TypeRule, Identifier/GenericParams/GroupEntry<GroupRule, TypeChoice<Type, Type1<TypeChoice, Type2/Operator<Type1, Type2<Operator, Identifier/GenericArgs/Type/Group<Type2, GroupChoice<Group, GroupEntry<GroupChoice, ValueMemberKeyEntry/TypeGroupnameEntry/Occurrence/Group<GroupEntry, Occurrence/MemberKey/Type<ValueMemberKeyEntry, Occurrence/GenericArgs/Identifier<TypeGroupnameEntry, Type1/Identifier<MemberKey, GenericArg<GenericArgs, Type1<GenericArg, GenericParam<GenericParams, Identifier<GenericParam), the true parent by address; child.parent(&pv) must return that very node (pointer identity). A wrong answer is classified by whether the returned node is the parent of an equal child occurring earlier / later in the document, or unrelated. Non-trivial = document with >= 30 parent queries; distinct by text.",
  assumptions: &["nodes copied by value in the API (Occur, Value, ControlOperator) cannot be queried by identity and are not checked"],
  required,
  post: None,
  shards: default_shards,
};

fn cases(t: Tier) -> u64 {
  match t {
    Tier::Quick => 3_000,
    Tier::Thorough => 300_000,
  }
}

fn required(s: &Summary) -> Option<String> {
  if s.c("parent_queries") < 100_000 || s.c("documents") < 1500 {
    return Some(format!("queries {} docs {}", s.c("parent_queries"), s.c("documents")));
  }
  None
}

#[derive(Default)]
struct Pairs<'a> {
  /// > 0 while walking the generic arguments of a ~name<...>
  in_unwrap_args: usize,
  /// addresses of children recorded while in_unwrap_args > 0
  under_unwrap_args: std::collections::HashSet<usize>,
  rule_cddl: Vec<(&'a Rule<'a>, &'a CDDL<'a>)>,
  tr_rule: Vec<(&'a TypeRule<'a>, &'a Rule<'a>)>,
  gr_rule: Vec<(&'a GroupRule<'a>, &'a Rule<'a>)>,
  id_tr: Vec<(&'a Identifier<'a>, &'a TypeRule<'a>)>,
  gp_tr: Vec<(&'a GenericParams<'a>, &'a TypeRule<'a>)>,
  ty_tr: Vec<(&'a Type<'a>, &'a TypeRule<'a>)>,
  id_gr: Vec<(&'a Identifier<'a>, &'a GroupRule<'a>)>,
  gp_gr: Vec<(&'a GenericParams<'a>, &'a GroupRule<'a>)>,
  ge_gr: Vec<(&'a GroupEntry<'a>, &'a GroupRule<'a>)>,
  tc_ty: Vec<(&'a TypeChoice<'a>, &'a Type<'a>)>,
  t1_tc: Vec<(&'a Type1<'a>, &'a TypeChoice<'a>)>,
  t2_t1: Vec<(&'a Type2<'a>, &'a Type1<'a>)>,
  op_t1: Vec<(&'a Operator<'a>, &'a Type1<'a>)>,
  t2_op: Vec<(&'a Type2<'a>, &'a Operator<'a>)>,
  id_t2: Vec<(&'a Identifier<'a>, &'a Type2<'a>)>,
  ga_t2: Vec<(&'a GenericArgs<'a>, &'a Type2<'a>)>,
  ty_t2: Vec<(&'a Type<'a>, &'a Type2<'a>)>,
  g_t2: Vec<(&'a Group<'a>, &'a Type2<'a>)>,
  gc_g: Vec<(&'a GroupChoice<'a>, &'a Group<'a>)>,
  ge_gc: Vec<(&'a GroupEntry<'a>, &'a GroupChoice<'a>)>,
  vmk_ge: Vec<(&'a ValueMemberKeyEntry<'a>, &'a GroupEntry<'a>)>,
  tgn_ge: Vec<(&'a TypeGroupnameEntry<'a>, &'a GroupEntry<'a>)>,
  occ_ge: Vec<(&'a Occurrence<'a>, &'a GroupEntry<'a>)>,
  g_ge: Vec<(&'a Group<'a>, &'a GroupEntry<'a>)>,
  occ_vmk: Vec<(&'a Occurrence<'a>, &'a ValueMemberKeyEntry<'a>)>,
  mk_vmk: Vec<(&'a MemberKey<'a>, &'a ValueMemberKeyEntry<'a>)>,
  ty_vmk: Vec<(&'a Type<'a>, &'a ValueMemberKeyEntry<'a>)>,
  occ_tgn: Vec<(&'a Occurrence<'a>, &'a TypeGroupnameEntry<'a>)>,
  ga_tgn: Vec<(&'a GenericArgs<'a>, &'a TypeGroupnameEntry<'a>)>,
  id_tgn: Vec<(&'a Identifier<'a>, &'a TypeGroupnameEntry<'a>)>,
  t1_mk: Vec<(&'a Type1<'a>, &'a MemberKey<'a>)>,
  id_mk: Vec<(&'a Identifier<'a>, &'a MemberKey<'a>)>,
  garg_ga: Vec<(&'a GenericArg<'a>, &'a GenericArgs<'a>)>,
  t1_garg: Vec<(&'a Type1<'a>, &'a GenericArg<'a>)>,
  gpar_gp: Vec<(&'a GenericParam<'a>, &'a GenericParams<'a>)>,
  id_gpar: Vec<(&'a Identifier<'a>, &'a GenericParam<'a>)>,
}

impl<'a> Pairs<'a> {
  fn mark(&mut self, addr: usize) {
    if self.in_unwrap_args > 0 {
      self.under_unwrap_args.insert(addr);
    }
  }
  fn gparams(&mut self, p: &'a GenericParams<'a>) {
    for x in &p.params {
      self.gpar_gp.push((x, p)); { let a = self.gpar_gp.last().unwrap().0 as *const _ as *const u8 as usize; self.mark(a); }
      self.id_gpar.push((&x.param, x)); { let a = self.id_gpar.last().unwrap().0 as *const _ as *const u8 as usize; self.mark(a); }
    }
  }
  fn gargs(&mut self, a: &'a GenericArgs<'a>) {
    for x in &a.args {
      self.garg_ga.push((x, a)); { let a = self.garg_ga.last().unwrap().0 as *const _ as *const u8 as usize; self.mark(a); }
      self.t1_garg.push((&x.arg, x)); { let a = self.t1_garg.last().unwrap().0 as *const _ as *const u8 as usize; self.mark(a); }
      self.type1(&x.arg);
    }
  }
  fn ty(&mut self, t: &'a Type<'a>) {
    for tc in &t.type_choices {
      self.tc_ty.push((tc, t)); { let a = self.tc_ty.last().unwrap().0 as *const _ as *const u8 as usize; self.mark(a); }
      self.t1_tc.push((&tc.type1, tc)); { let a = self.t1_tc.last().unwrap().0 as *const _ as *const u8 as usize; self.mark(a); }
      self.type1(&tc.type1);
    }
  }
  fn type1(&mut self, t1: &'a Type1<'a>) {
    self.t2_t1.push((&t1.type2, t1)); { let a = self.t2_t1.last().unwrap().0 as *const _ as *const u8 as usize; self.mark(a); }
    self.type2(&t1.type2);
    if let Some(o) = &t1.operator {
      self.op_t1.push((o, t1)); { let a = self.op_t1.last().unwrap().0 as *const _ as *const u8 as usize; self.mark(a); }
      self.t2_op.push((&o.type2, o)); { let a = self.t2_op.last().unwrap().0 as *const _ as *const u8 as usize; self.mark(a); }
      self.type2(&o.type2);
    }
  }
  fn type2(&mut self, t2: &'a Type2<'a>) {
    match t2 {
      Type2::Unwrap { ident, generic_args, .. } => {
        self.mark(ident as *const _ as *const u8 as usize);
        self.id_t2.push((ident, t2));
        if let Some(ga) = generic_args {
          self.in_unwrap_args += 1;
          self.mark(ga as *const _ as *const u8 as usize);
          self.ga_t2.push((ga, t2));
          self.gargs(ga);
          self.in_unwrap_args -= 1;
        }
      }
      Type2::Typename { ident, generic_args, .. } | Type2::ChoiceFromGroup { ident, generic_args, .. } => {
        self.id_t2.push((ident, t2)); { let a = self.id_t2.last().unwrap().0 as *const _ as *const u8 as usize; self.mark(a); }
        if let Some(ga) = generic_args {
          self.ga_t2.push((ga, t2)); { let a = self.ga_t2.last().unwrap().0 as *const _ as *const u8 as usize; self.mark(a); }
          self.gargs(ga);
        }
      }
      Type2::ParenthesizedType { pt, .. } => {
        self.ty_t2.push((pt, t2)); { let a = self.ty_t2.last().unwrap().0 as *const _ as *const u8 as usize; self.mark(a); }
        self.ty(pt);
      }
      Type2::TaggedData { t, .. } => {
        self.ty_t2.push((t, t2)); { let a = self.ty_t2.last().unwrap().0 as *const _ as *const u8 as usize; self.mark(a); }
        self.ty(t);
      }
      Type2::Map { group, .. } | Type2::Array { group, .. } | Type2::ChoiceFromInlineGroup { group, .. } => {
        self.g_t2.push((group, t2)); { let a = self.g_t2.last().unwrap().0 as *const _ as *const u8 as usize; self.mark(a); }
        self.group(group);
      }
      _ => {}
    }
  }
  fn group(&mut self, g: &'a Group<'a>) {
    for gc in &g.group_choices {
      self.gc_g.push((gc, g)); { let a = self.gc_g.last().unwrap().0 as *const _ as *const u8 as usize; self.mark(a); }
      for (ge, _) in &gc.group_entries {
        self.ge_gc.push((ge, gc)); { let a = self.ge_gc.last().unwrap().0 as *const _ as *const u8 as usize; self.mark(a); }
        self.entry(ge);
      }
    }
  }
  fn entry(&mut self, ge: &'a GroupEntry<'a>) {
    match ge {
      GroupEntry::ValueMemberKey { ge: v, .. } => {
        self.vmk_ge.push((v, ge)); { let a = self.vmk_ge.last().unwrap().0 as *const _ as *const u8 as usize; self.mark(a); }
        if let Some(o) = &v.occur {
          self.occ_vmk.push((o, v)); { let a = self.occ_vmk.last().unwrap().0 as *const _ as *const u8 as usize; self.mark(a); }
        }
        if let Some(mk) = &v.member_key {
          self.mk_vmk.push((mk, v)); { let a = self.mk_vmk.last().unwrap().0 as *const _ as *const u8 as usize; self.mark(a); }
          match mk {
            MemberKey::Type1 { t1, .. } => {
              self.t1_mk.push((t1, mk)); { let a = self.t1_mk.last().unwrap().0 as *const _ as *const u8 as usize; self.mark(a); }
              self.type1(t1);
            }
            MemberKey::Bareword { ident, .. } => {
              self.id_mk.push((ident, mk));
              let a = self.id_mk.last().unwrap().0 as *const _ as *const u8 as usize;
              self.mark(a);
            }
            _ => {}
          }
        }
        self.ty_vmk.push((&v.entry_type, v)); { let a = self.ty_vmk.last().unwrap().0 as *const _ as *const u8 as usize; self.mark(a); }
        self.ty(&v.entry_type);
      }
      GroupEntry::TypeGroupname { ge: t, .. } => {
        self.tgn_ge.push((t, ge)); { let a = self.tgn_ge.last().unwrap().0 as *const _ as *const u8 as usize; self.mark(a); }
        if let Some(o) = &t.occur {
          self.occ_tgn.push((o, t)); { let a = self.occ_tgn.last().unwrap().0 as *const _ as *const u8 as usize; self.mark(a); }
        }
        self.id_tgn.push((&t.name, t)); { let a = self.id_tgn.last().unwrap().0 as *const _ as *const u8 as usize; self.mark(a); }
        if let Some(ga) = &t.generic_args {
          self.ga_tgn.push((ga, t)); { let a = self.ga_tgn.last().unwrap().0 as *const _ as *const u8 as usize; self.mark(a); }
          self.gargs(ga);
        }
      }
      GroupEntry::InlineGroup { occur, group, .. } => {
        if let Some(o) = occur {
          self.occ_ge.push((o, ge)); { let a = self.occ_ge.last().unwrap().0 as *const _ as *const u8 as usize; self.mark(a); }
        }
        self.g_ge.push((group, ge)); { let a = self.g_ge.last().unwrap().0 as *const _ as *const u8 as usize; self.mark(a); }
        self.group(group);
      }
    }
  }
  fn doc(&mut self, c: &'a CDDL<'a>) {
    for r in &c.rules {
      self.rule_cddl.push((r, c)); { let a = self.rule_cddl.last().unwrap().0 as *const _ as *const u8 as usize; self.mark(a); }
      match r {
        Rule::Type { rule, .. } => {
          self.tr_rule.push((rule, r)); { let a = self.tr_rule.last().unwrap().0 as *const _ as *const u8 as usize; self.mark(a); }
          self.id_tr.push((&rule.name, rule)); { let a = self.id_tr.last().unwrap().0 as *const _ as *const u8 as usize; self.mark(a); }
          if let Some(p) = &rule.generic_params {
            self.gp_tr.push((p, rule)); { let a = self.gp_tr.last().unwrap().0 as *const _ as *const u8 as usize; self.mark(a); }
            self.gparams(p);
          }
          self.ty_tr.push((&rule.value, rule)); { let a = self.ty_tr.last().unwrap().0 as *const _ as *const u8 as usize; self.mark(a); }
          self.ty(&rule.value);
        }
        Rule::Group { rule, .. } => {
          self.gr_rule.push((rule, r)); { let a = self.gr_rule.last().unwrap().0 as *const _ as *const u8 as usize; self.mark(a); }
          self.id_gr.push((&rule.name, rule)); { let a = self.id_gr.last().unwrap().0 as *const _ as *const u8 as usize; self.mark(a); }
          if let Some(p) = &rule.generic_params {
            self.gp_gr.push((p, rule)); { let a = self.gp_gr.last().unwrap().0 as *const _ as *const u8 as usize; self.mark(a); }
            self.gparams(p);
          }
          self.ge_gr.push((&rule.entry, rule)); { let a = self.ge_gr.last().unwrap().0 as *const _ as *const u8 as usize; self.mark(a); }
          self.entry(&rule.entry);
        }
      }
    }
  }
}

macro_rules! chk {
  ($v:expr, $name:expr, $pt:ty, $pv:expr, $out:expr, $n:expr, $under:expr) => {
    for (i, (child, parent)) in $v.iter().enumerate() {
      *$n += 1;
      let got: Option<&$pt> = child.parent($pv);
      match got {
        Some(p) if std::ptr::eq(p, *parent) => {}
        Some(p) => {
          // whose parent is it? an equal child elsewhere?
          let mut cls = "unrelated-node";
          for (j, (c2, p2)) in $v.iter().enumerate() {
            if std::ptr::eq(p, *p2) && *c2 == *child {
              cls = if j < i { "parent-of-equal-earlier-child" } else { "parent-of-equal-later-child" };
              break;
            }
          }
          *$out.entry(format!("wrong-parent:{}:{}", $name, cls)).or_insert(0u64) += 1;
        }
        None => {
          let under = $under.contains(&(*child as *const _ as *const u8 as usize));
          *$out.entry(format!("no-parent:{}{}", $name, if under { ":under-unwrap-generic-args" } else { "" })).or_insert(0u64) += 1
        }
      }
    }
  };
}

pub fn check_text(ctx: &mut Ctx, text: &str) {
  check(ctx, text)
}

fn check(ctx: &mut Ctx, text: &str) {
  ctx.eval();
  let r = guard(|| {
    let ast = match cddl::cddl_from_str(text, false) {
      Ok(a) => a,
      Err(_) => return None,
    };
    let mut bad: BTreeMap<String, u64> = BTreeMap::new();
    let mut n = 0u64;
    let pv = match ParentVisitor::new(&ast) {
      Ok(p) => p,
      Err(e) => {
        bad.insert(format!("build-failed:{}", e), 1);
        return Some((bad, 0));
      }
    };
    // the root has no parent
    if Parent::<()>::parent(&ast, &pv).is_some() {
      bad.insert("root-has-parent".into(), 1);
    }
    let mut p = Pairs::default();
    p.doc(&ast);
    {
      let (out, nn, pvr) = (&mut bad, &mut n, &pv);
      let under = &p.under_unwrap_args;
      chk!(p.rule_cddl, "Rule<CDDL", CDDL, pvr, out, nn, under);
      chk!(p.tr_rule, "TypeRule<Rule", Rule, pvr, out, nn, under);
      chk!(p.gr_rule, "GroupRule<Rule", Rule, pvr, out, nn, under);
      chk!(p.id_tr, "Identifier<TypeRule", TypeRule, pvr, out, nn, under);
      chk!(p.gp_tr, "GenericParams<TypeRule", TypeRule, pvr, out, nn, under);
      chk!(p.ty_tr, "Type<TypeRule", TypeRule, pvr, out, nn, under);
      chk!(p.id_gr, "Identifier<GroupRule", GroupRule, pvr, out, nn, under);
      chk!(p.gp_gr, "GenericParams<GroupRule", GroupRule, pvr, out, nn, under);
      chk!(p.ge_gr, "GroupEntry<GroupRule", GroupRule, pvr, out, nn, under);
      chk!(p.tc_ty, "TypeChoice<Type", Type, pvr, out, nn, under);
      chk!(p.t1_tc, "Type1<TypeChoice", TypeChoice, pvr, out, nn, under);
      chk!(p.t2_t1, "Type2<Type1", Type1, pvr, out, nn, under);
      chk!(p.op_t1, "Operator<Type1", Type1, pvr, out, nn, under);
      chk!(p.t2_op, "Type2<Operator", Operator, pvr, out, nn, under);
      chk!(p.id_t2, "Identifier<Type2", Type2, pvr, out, nn, under);
      chk!(p.ga_t2, "GenericArgs<Type2", Type2, pvr, out, nn, under);
      chk!(p.ty_t2, "Type<Type2", Type2, pvr, out, nn, under);
      chk!(p.g_t2, "Group<Type2", Type2, pvr, out, nn, under);
      chk!(p.gc_g, "GroupChoice<Group", Group, pvr, out, nn, under);
      chk!(p.ge_gc, "GroupEntry<GroupChoice", GroupChoice, pvr, out, nn, under);
      chk!(p.vmk_ge, "ValueMemberKeyEntry<GroupEntry", GroupEntry, pvr, out, nn, under);
      chk!(p.tgn_ge, "TypeGroupnameEntry<GroupEntry", GroupEntry, pvr, out, nn, under);
      chk!(p.occ_ge, "Occurrence<GroupEntry", GroupEntry, pvr, out, nn, under);
      chk!(p.g_ge, "Group<GroupEntry", GroupEntry, pvr, out, nn, under);
      chk!(p.occ_vmk, "Occurrence<ValueMemberKeyEntry", ValueMemberKeyEntry, pvr, out, nn, under);
      chk!(p.mk_vmk, "MemberKey<ValueMemberKeyEntry", ValueMemberKeyEntry, pvr, out, nn, under);
      chk!(p.ty_vmk, "Type<ValueMemberKeyEntry", ValueMemberKeyEntry, pvr, out, nn, under);
      chk!(p.occ_tgn, "Occurrence<TypeGroupnameEntry", TypeGroupnameEntry, pvr, out, nn, under);
      chk!(p.ga_tgn, "GenericArgs<TypeGroupnameEntry", TypeGroupnameEntry, pvr, out, nn, under);
      chk!(p.id_tgn, "Identifier<TypeGroupnameEntry", TypeGroupnameEntry, pvr, out, nn, under);
      chk!(p.t1_mk, "Type1<MemberKey", MemberKey, pvr, out, nn, under);
      chk!(p.id_mk, "Identifier<MemberKey", MemberKey, pvr, out, nn, under);
      chk!(p.garg_ga, "GenericArg<GenericArgs", GenericArgs, pvr, out, nn, under);
      chk!(p.t1_garg, "Type1<GenericArg", GenericArg, pvr, out, nn, under);
      chk!(p.gpar_gp, "GenericParam<GenericParams", GenericParams, pvr, out, nn, under);
      chk!(p.id_gpar, "Identifier<GenericParam", GenericParam, pvr, out, nn, under);
    }
    Some((bad, n))
  });
  match r {
    Err(p) => {
      ctx.count("panics_left_to_C05");
      ctx.note(format!("panic (C05 owns this): {}", crate::api::norm_panic(&p)));
    }
    Ok(None) => ctx.count("rejected_docs_skipped"),
    Ok(Some((bad, n))) => {
      ctx.count("documents");
      ctx.add("parent_queries", n);
      if n >= 30 {
        ctx.nontrivial(hash_str(text));
      }
      if bad.is_empty() {
        ctx.count("documents_all_parents_right");
        ctx.sample("held", 2, || json!({"text": text, "parent_queries": n}));
      }
      for (sig, cnt) in bad {
        ctx.report(&sig, json!({"text": text, "wrong_answers_of_this_kind": cnt, "parent_queries": n}));
      }
    }
  }
}

fn run(ctx: &mut Ctx, idx: u64) {
  let mut rng = ctx.rng.clone();
  let mut prof = Profile::syntax();
  prof.max_rules = 5;
  prof.max_depth = 3;
  let g = {
    let mut gen = Gen::new(&mut rng, prof);
    gen.allow_any_hash = false;
    gen.allow_paren_key = false;
    gen.allow_bare_group_rule = false;
    gen.schema()
  };
  let mut text = render(&g, &Mode::Orig(Style::random(&mut rng, false), rng.next_u64()));
  if idx % 3 == 0 {
    // repeat one sub-expression text several times, in one rule and across rules
    let e = rng.pick_str(&["[* int]", "{ k: tstr, ? j: [int, int] }", "int", "\"x\"", "1..5", "tstr .size 3", "( a: int, b: int )", "#6.1(uint)", "~z9 / &y9", "g9<int, int>"]);
    text.push_str(&format!("rep1 = [{e}, {e}, {{ a: {e}, b: {e} }}]\nrep2 = {e2} / {e2}\nrep3 = {e2}\n", e = e, e2 = if e.starts_with('(') { "int" } else { e }));
  }
  check(ctx, &text);
}
