//! C09 — type operators, occurrences and prelude names obey their defining identities.

use crate::dv::DV;
use crate::gs::{self, *};
use crate::props::c01::{gen_docs, gen_schema};
use crate::refac;
use crate::rng::hash_str;
use crate::sup::{default_shards, Ctx, PropDef, Summary, Tier};
use crate::vcore;
use serde_json::json;

pub static DEF: PropDef = PropDef {
  id: "C09",
  level: "exploration",
  cases,
  run,
  stack_mb: 64,
  case_cpu_s: 10.0,
  crash_is_event: false,
  rule: "Identities are checked on observed verdicts of both validators (JSON on JSON-model values, CBOR on CBOR values incl. tags, bytes, simple values): (1) rewrites of a generated schema at a seed-chosen position - reverse the alternatives of a type choice; respell an occurrence (? <-> 0*1, * <-> 0*, + <-> 1*, *n <-> 0*n); replace a prelude name by its RFC 8610 Appendix D definition written out (int = uint / nint, number = int / float, bool = false / true, text = tstr, nil = null and, for CBOR, uint = #0, nint = #1, bstr = #2, tstr = #3, float64 = #7.27, false/true/nil/undefined = #7.20-23, tdate/time/biguint/bignint/uri/b64url/regexp/encoded-cbor/cbor-any = their #6.n(...) forms, bigint/integer/unsigned/float by their choices); replace a...b by a..(b-1) on integers - the verdict must not change; (2) composites over two rules A, B of the schema: v(A / B) = v(B / A) = v(A) or v(B); v(A .and B) = v(A .within B) = v(A) and v(B); (3) for a prelude type T and a literal c: v(T .ne c) = v(T) and not v(T .eq c); a..b and a...b agree except at d = b. Disagreements are shrunk with the rewrite re-applied. Non-trivial = identity instance with verdicts on >= 3 values; distinct by schema pair.",
  assumptions: &["identities are those stated in the property; no reference model is used for the verdicts themselves"],
  required,
  post: None,
  shards: default_shards,
};

fn cases(t: Tier) -> u64 {
  match t {
    Tier::Quick => 8_000,
    Tier::Thorough => 60_000,
  }
}

fn required(s: &Summary) -> Option<String> {
  if s.c("identity_instances") < 15_000 {
    return Some(format!("identity instances {}", s.c("identity_instances")));
  }
  None
}

fn verdict(cbor: bool, st: &str, v: &DV) -> Option<bool> {
  if cbor {
    vcore::impl_cbor(st, v)
  } else {
    vcore::impl_json(st, v)
  }
}

fn sig9(dir: &str, gs_list: &[&GS], v: &DV) -> String {
  let mut t: std::collections::BTreeSet<String> = Default::default();
  for g in gs_list {
    t.extend(gs::tags(g));
  }
  t.extend(vcore::value_tags(v));
  format!("{}:{}", dir, t.into_iter().collect::<Vec<_>>().join(","))
}

fn with_root(g: &GS, body: GType) -> GS {
  let mut c = g.clone();
  c.rules.insert(0, GRule { name: "root0".into(), params: vec![], assign: Assign::Eq, body: GBody::Type(body) });
  c
}

fn rewrite_part(ctx: &mut Ctx, idx: u64, cbor: bool) {
  let mut rng = ctx.rng.clone();
  let g = gen_schema(&mut rng, if cbor { Profile::core(true) } else { Profile::shared() });
  if !gs::wellformed(&g) {
    return;
  }
  let kinds = &refac::KINDS9[..4];
  let kind = kinds[(idx as usize / 2) % kinds.len()];
  let k = rng.usize(1000);
  let g2 = match refac::apply9(kind, &g, k, cbor) {
    Some(x) if gs::wellformed(&x) && x != g => x,
    _ => {
      ctx.count(&format!("not_applicable:{}", kind));
      return;
    }
  };
  ctx.count(&format!("applied:{}", kind));
  let (st, st2) = (vcore::schema_text(&g), vcore::schema_text(&g2));
  let docs = gen_docs(&g, &mut rng, !cbor, 8);
  let mut n = 0;
  for (v, _) in &docs {
    ctx.eval();
    let (a, b) = match (verdict(cbor, &st, v), verdict(cbor, &st2, v)) {
      (Some(a), Some(b)) => (a, b),
      _ => {
        ctx.count("no_verdict_skipped");
        continue;
      }
    };
    ctx.count("identity_instances");
    n += 1;
    if a == b {
      ctx.count("identity_held");
      ctx.sample(kind, 1, || json!({"identity": kind, "S": st, "S2": st2, "value": v.diag(), "validator": if cbor {"cbor"} else {"json"}, "verdict": a}));
      continue;
    }
    let dir = format!("{}/{}/{}", kind, if cbor { "cbor" } else { "json" }, if a { "ok->err" } else { "err->ok" });
    let score = |cg: &GS, cv: &DV| {
      let c2 = refac::apply9(kind, cg, k, cbor);
      ctx.known_score(&sig9(&dir, &[cg, c2.as_ref().unwrap_or(cg)], cv))
    };
    let (sg, sv) = vcore::shrink_pair(
      &g,
      v,
      3000,
      &mut |cg, cv| {
        if (!cbor && !cv.is_json()) || !gs::wellformed(cg) {
          return false;
        }
        let c2 = match refac::apply9(kind, cg, k, cbor) {
          Some(x) if gs::wellformed(&x) => x,
          _ => return false,
        };
        verdict(cbor, &vcore::schema_text(cg), cv) == Some(a) && verdict(cbor, &vcore::schema_text(&c2), cv) == Some(b)
      },
      &score,
    );
    let sg2 = refac::apply9(kind, &sg, k, cbor).unwrap_or_else(|| sg.clone());
    let sig = sig9(&dir, &[&sg, &sg2], &sv);
    ctx.report(&sig, json!({"identity": kind, "validator": if cbor {"cbor"} else {"json"}, "S": st, "S2": st2, "value": v.diag(), "verdict_S": a, "verdict_S2": b,
      "shrunk_schema": vcore::schema_text(&sg), "shrunk_rho": vcore::schema_text(&sg2), "shrunk_json": sv.diag()}));
  }
  if n >= 3 {
    ctx.nontrivial(hash_str(&format!("{}\u{0}{}", st, st2)));
  }
}

/// composites over two rules A, B of the schema
fn composite_part(ctx: &mut Ctx, cbor: bool) {
  let mut rng = ctx.rng.clone();
  let g = gen_schema(&mut rng, if cbor { Profile::core(true) } else { Profile::shared() });
  if !gs::wellformed(&g) {
    return;
  }
  let names: Vec<String> = {
    let mut v: Vec<String> = g.rules.iter().filter(|r| matches!(r.body, GBody::Type(_)) && r.params.is_empty() && !r.name.starts_with('$')).map(|r| r.name.clone()).collect();
    v.dedup();
    v
  };
  if names.len() < 2 {
    ctx.count("composite_needs_two_rules_skipped");
    return;
  }
  let a = names[rng.usize(names.len())].clone();
  let mut bn = names[rng.usize(names.len())].clone();
  if bn == a {
    bn = names[(names.iter().position(|x| *x == a).unwrap() + 1) % names.len()].clone();
  }
  let build = |base: &GS, what: &str| -> GS {
    let (ta, tb) = (name(&a), name(&bn));
    let body = match what {
      "A" => ty(ta),
      "B" => ty(tb),
      "A/B" => GType { choices: vec![t1(ta), t1(tb)] },
      "B/A" => GType { choices: vec![t1(tb), t1(ta)] },
      "and" => GType { choices: vec![GType1 { t2: ta, op: Some((GOp::Ctl("and".into()), tb)) }] },
      _ => GType { choices: vec![GType1 { t2: ta, op: Some((GOp::Ctl("within".into()), tb)) }] },
    };
    with_root(base, body)
  };
  let docs = gen_docs(&build(&g, "A/B"), &mut rng, !cbor, 8);
  for (v, _) in &docs {
    ctx.eval();
    let vd = |base: &GS, what: &str, v: &DV| verdict(cbor, &vcore::schema_text(&build(base, what)), v);
    let all: Vec<Option<bool>> = ["A", "B", "A/B", "B/A", "and", "within"].iter().map(|w| vd(&g, w, v)).collect();
    if all.iter().any(|x| x.is_none()) {
      ctx.count("no_verdict_skipped");
      continue;
    }
    let x: Vec<bool> = all.into_iter().map(|x| x.unwrap()).collect();
    ctx.count("identity_instances");
    // which identity fails?
    let mut failed: Option<(&str, String)> = None;
    if x[2] != (x[0] || x[1]) {
      failed = Some(("or", format!("v(A)={} v(B)={} v(A/B)={}", x[0], x[1], x[2])));
    } else if x[3] != x[2] {
      failed = Some(("or-commute", format!("v(A/B)={} v(B/A)={}", x[2], x[3])));
    } else if x[4] != (x[0] && x[1]) {
      failed = Some(("and", format!("v(A)={} v(B)={} v(A .and B)={}", x[0], x[1], x[4])));
    } else if x[5] != (x[0] && x[1]) {
      failed = Some(("within", format!("v(A)={} v(B)={} v(A .within B)={}", x[0], x[1], x[5])));
    }
    let (id, detail) = match failed {
      None => {
        ctx.count("identity_held");
        ctx.sample("composite", 1, || json!({"identity": "or/and/within", "A": a, "B": bn, "schema": vcore::schema_text(&g), "value": v.diag(), "verdicts[A,B,A/B,B/A,and,within]": x}));
        continue;
      }
      Some(f) => f,
    };
    let dir = format!("{}/{}", id, if cbor { "cbor" } else { "json" });
    let fails = |base: &GS, v: &DV| -> bool {
      if !base.rules.iter().any(|r| r.name == a) || !base.rules.iter().any(|r| r.name == bn) || !gs::wellformed(base) {
        return false;
      }
      let q = |w: &str| vd(base, w, v);
      match id {
        "or" => matches!((q("A"), q("B"), q("A/B")), (Some(p), Some(r), Some(s)) if s != (p || r)),
        "or-commute" => matches!((q("A/B"), q("B/A")), (Some(p), Some(r)) if p != r),
        "and" => matches!((q("A"), q("B"), q("and")), (Some(p), Some(r), Some(s)) if s != (p && r)),
        _ => matches!((q("A"), q("B"), q("within")), (Some(p), Some(r), Some(s)) if s != (p && r)),
      }
    };
    let score = |cg: &GS, cv: &DV| ctx.known_score(&sig9(&dir, &[cg], cv));
    let (sg, sv) = vcore::shrink_pair(&g, v, 2500, &mut |cg, cv| (cbor || cv.is_json()) && fails(cg, cv), &score);
    let sig = sig9(&dir, &[&sg], &sv);
    ctx.report(&sig, json!({"identity": id, "validator": if cbor {"cbor"} else {"json"}, "A": a, "B": bn, "detail": detail, "schema": vcore::schema_text(&g), "value": v.diag(),
      "shrunk_schema": vcore::schema_text(&sg), "shrunk_rho": format!("A = {}, B = {}", a, bn), "shrunk_json": sv.diag()}));
  }
}

/// T .ne c  /  T .eq c  and  a..b / a...b  on scalar documents
fn scalar_part(ctx: &mut Ctx, cbor: bool) {
  let mut rng = ctx.rng.clone();
  let t = rng.pick_str(if cbor { &["int", "uint", "nint", "number", "tstr", "any", "float", "bstr"] } else { &["int", "uint", "number", "tstr", "any", "float"] });
  let c = match rng.below(3) {
    0 => GLit::Uint(rng.below(5)),
    1 => GLit::Nint(-(1 + rng.below(4) as i128)),
    _ => GLit::Text(rng.pick_str(&["a", "b", ""]).to_string()),
  };
  let mk = |op: Option<&str>| GS { rules: vec![GRule { name: "r".into(), params: vec![], assign: Assign::Eq, body: GBody::Type(GType { choices: vec![GType1 { t2: name(t), op: op.map(|o| (GOp::Ctl(o.into()), GType2::Lit(c.clone()))) }] }) }] };
  let (st, sne, seq) = (vcore::schema_text(&mk(None)), vcore::schema_text(&mk(Some("ne"))), vcore::schema_text(&mk(Some("eq"))));
  let mut docs: Vec<DV> = vec![DV::Int(0), DV::Int(1), DV::Int(-1), DV::Int(4), DV::Text("a".into()), DV::Text("".into()), DV::Float(0.5), DV::Bool(true), DV::Null];
  docs.push(match &c {
    GLit::Uint(n) => DV::Int(*n as i128),
    GLit::Nint(n) => DV::Int(*n),
    GLit::Text(s) => DV::Text(s.clone()),
    _ => DV::Null,
  });
  if cbor {
    docs.push(DV::Bytes(vec![1]));
  }
  for v in &docs {
    ctx.eval();
    if let (Some(a), Some(n), Some(e)) = (verdict(cbor, &st, v), verdict(cbor, &sne, v), verdict(cbor, &seq, v)) {
      ctx.count("identity_instances");
      if n == (a && !e) {
        ctx.count("identity_held");
      } else {
        let sig = format!("ne-eq/{}:{}", if cbor { "cbor" } else { "json" }, {
          let mut tg: Vec<String> = gs::tags(&mk(Some("ne"))).into_iter().collect();
          tg.extend(vcore::value_tags(v));
          tg.join(",")
        });
        ctx.report(&sig, json!({"identity": "T .ne c == T and not (T .eq c)", "T": t, "c": format!("{:?}", c), "value": v.diag(), "v(T)": a, "v(T .ne c)": n, "v(T .eq c)": e, "shrunk_schema": sne, "shrunk_rho": seq, "shrunk_json": v.diag()}));
      }
    }
  }
  // inclusive vs exclusive range
  let lo = rng.range(-3, 3);
  let hi = lo + rng.range(0, 4);
  let lit = |n: i64| if n >= 0 { GLit::Uint(n as u64) } else { GLit::Nint(n as i128) };
  let rg = |incl: bool| GS { rules: vec![GRule { name: "r".into(), params: vec![], assign: Assign::Eq, body: GBody::Type(GType { choices: vec![GType1 { t2: GType2::Lit(lit(lo)), op: Some((GOp::Range { incl }, GType2::Lit(lit(hi)))) }] }) }] };
  let (si, se) = (vcore::schema_text(&rg(true)), vcore::schema_text(&rg(false)));
  for d in (lo - 2)..=(hi + 2) {
    let v = DV::Int(d as i128);
    ctx.eval();
    if let (Some(a), Some(b)) = (verdict(cbor, &si, &v), verdict(cbor, &se, &v)) {
      ctx.count("identity_instances");
      let ok = if d == hi { a && !b } else { a == b };
      if ok {
        ctx.count("identity_held");
      } else {
        let sig = format!("range-incl-excl/{}:{}", if cbor { "cbor" } else { "json" }, {
          let mut tg: Vec<String> = gs::tags(&rg(true)).into_iter().collect();
          tg.extend(gs::tags(&rg(false)));
          tg.sort();
          tg.dedup();
          tg.extend(vcore::value_tags(&v));
          tg.join(",")
        });
        ctx.report(&sig, json!({"identity": "a..b and a...b differ only at b", "value": d, "v(a..b)": a, "v(a...b)": b, "shrunk_schema": si, "shrunk_rho": se, "shrunk_json": v.diag()}));
      }
    }
  }
}

fn run(ctx: &mut Ctx, idx: u64) {
  let cbor = idx % 2 == 1;
  match (idx / 2) % 6 {
    0..=3 => rewrite_part(ctx, idx, cbor),
    4 => composite_part(ctx, cbor),
    _ => scalar_part(ctx, cbor),
  }
}
