//! C14 — validation failures are reported faithfully and deterministically.

use crate::api::{self, V};
use crate::dv::{self, DV};
use crate::gs::Profile;
use crate::props::c01::{gen_docs, gen_schema};
use crate::rng::{hash_str, Rng};
use crate::sup::{default_shards, Ctx, PropDef, Summary, Tier};
use crate::vcore;
use serde_json::json;
use std::sync::{Arc, Barrier};
use std::time::Instant;

pub static DEF: PropDef = PropDef {
  id: "C14",
  level: "exploration",
  cases,
  run,
  stack_mb: 64,
  case_cpu_s: 30.0,
  crash_is_event: false,
  rule: "Per case a schema over the shared feature set and up to 8 JSON-model values are generated; every value is validated as JSON text and as CBOR. Invariants on each result: Err(Validation(list)) has a non-empty list; every JSON error location is \"\" or a slash path for which some segmentation into existing object keys / array indices of the validated document exists. Determinism: the full result (verdict + ordered list of (location, reason)) of each call is compared between (a) two sequential repetitions, (b) the call repeated after 40 unrelated validation calls on other schemas and documents, (c) the same calls made concurrently from 8 threads released together by a barrier (each thread runs all calls of the case three times; per-call begin/end times are recorded and the number of overlapping call pairs is reported). (d) History independence: on every second case 24 sibling calls (schemas sharing their controller texts over .regexp/.iregexp/.pcre or .lt/.le/.gt/.ge/.eq/.ne/.size/.bits and differing in the operator) are each made alone on a brand-new thread, then all in order on one new thread and in reverse order on another; the three results of each call must be equal. Error kinds: a malformed schema (single-edit mutants that the parser rejects), a malformed document (truncated / corrupted JSON text, truncated CBOR) and a well-formed non-conforming document must come back as three different error kinds. Non-trivial = a rejecting call with >= 1 error compared across all three repetition modes; distinct by (schema, document, validator).",
  assumptions: &[
    "thread overlap is measured with a monotonic clock; a case whose threads did not overlap is counted as not-overlapped (the run as a whole needs overlapping pairs)",
    "the thorough tier additionally runs the first 640 cases (all repetition modes, 8 concurrent threads per case) in a ThreadSanitizer build of the harness with an instrumented standard library; a report is a violation, a failed sanitizer build is inconclusive; the quick tier does not",
  ],
  required,
  post: Some(post),
  shards: default_shards,
};

fn post(sum: &mut Summary, tier: Tier, seed: u64) {
  crate::san::tsan_phase(&DEF, sum, tier, seed, 640);
}

fn cases(t: Tier) -> u64 {
  match t {
    Tier::Quick => 1_600,
    Tier::Thorough => 12_000,
  }
}

fn required(s: &Summary) -> Option<String> {
  if s.c("calls_compared_concurrent") < 20_000 || s.c("overlapping_call_pairs") < 1_000 || s.c("rejecting_calls") < 1_000 {
    return Some(format!("concurrent {} overlaps {} rejecting {}", s.c("calls_compared_concurrent"), s.c("overlapping_call_pairs"), s.c("rejecting_calls")));
  }
  None
}

/// does `loc` resolve in `v`? (keys may contain '/': any segmentation counts)
fn resolves(v: &serde_json::Value, loc: &str) -> bool {
  if loc.is_empty() {
    return true;
  }
  if !loc.starts_with('/') {
    return false;
  }
  let rest = &loc[1..];
  match v {
    serde_json::Value::Object(m) => m.iter().any(|(k, x)| {
      if let Some(r) = rest.strip_prefix(k.as_str()) {
        r.is_empty() || (r.starts_with('/') && resolves(x, r))
      } else {
        false
      }
    }),
    serde_json::Value::Array(a) => {
      let digits: String = rest.chars().take_while(|c| c.is_ascii_digit()).collect();
      if digits.is_empty() {
        return false;
      }
      match digits.parse::<usize>() {
        Ok(i) if i < a.len() => {
          let r = &rest[digits.len()..];
          r.is_empty() || (r.starts_with('/') && resolves(&a[i], r))
        }
        _ => false,
      }
    }
    _ => false,
  }
}

#[derive(Clone)]
struct Call {
  schema: Arc<String>,
  json: Option<Arc<String>>,
  cbor: Option<Arc<Vec<u8>>>,
}

fn exec(c: &Call) -> Result<V, String> {
  match (&c.json, &c.cbor) {
    (Some(j), _) => api::vjson(&c.schema, j, None),
    (_, Some(b)) => api::vcbor(&c.schema, b, None),
    _ => unreachable!(),
  }
}

fn shape(r: &Result<V, String>) -> String {
  match r {
    Ok(v) => format!("{:?}", v),
    Err(p) => format!("PANIC {}", api::norm_panic(p)),
  }
}

fn run(ctx: &mut Ctx, idx: u64) {
  let mut rng = ctx.rng.clone();
  let g = gen_schema(&mut rng, if idx % 4 == 3 { Profile::shared() } else { Profile::core(false) });
  let st = Arc::new(vcore::schema_text(&g));
  let docs = gen_docs(&g, &mut rng, true, 8);
  let mut calls: Vec<Call> = vec![];
  for (v, _) in &docs {
    calls.push(Call { schema: st.clone(), json: Some(Arc::new(v.to_json())), cbor: None });
    let mut r = Rng::new(0);
    calls.push(Call { schema: st.clone(), json: None, cbor: Some(Arc::new(dv::encode(v, &dv::CANON, &mut r))) });
  }
  // baseline
  let base: Vec<Result<V, String>> = calls.iter().map(exec).collect();
  for (c, r) in calls.iter().zip(base.iter()) {
    ctx.eval();
    match r {
      Err(_) => {
        ctx.count("panics_left_to_C05");
        continue;
      }
      Ok(V::Invalid(list)) => {
        ctx.count("rejecting_calls");
        if list.is_empty() {
          ctx.report(&format!("empty-error-list:{}", if c.json.is_some() { "json" } else { "cbor" }), json!({"schema": *st, "json": c.json.as_deref(), "cbor_hex": c.cbor.as_ref().map(|b| dv::hex(b))}));
        }
        if let Some(j) = &c.json {
          if let Ok(doc) = serde_json::from_str::<serde_json::Value>(j) {
            for (loc, reason) in list {
              ctx.count("json_locations_checked");
              if !resolves(&doc, loc) {
                // classify: is the path a suffix of a resolvable path (relative location), or has a stale prefix?
                let kind = {
                  let segs: Vec<&str> = loc.split('/').collect();
                  // relative location: the path resolves from some inner node of the document
                  fn inner_resolves(v: &serde_json::Value, loc: &str) -> bool {
                    match v {
                      serde_json::Value::Object(m) => m.values().any(|x| resolves(x, loc) || inner_resolves(x, loc)),
                      serde_json::Value::Array(a) => a.iter().any(|x| resolves(x, loc) || inner_resolves(x, loc)),
                      _ => false,
                    }
                  }
                  let mut k = if inner_resolves(&doc, loc) { "missing-prefix" } else { "unresolvable" };
                  for cut in 1..segs.len() {
                    let tail = format!("/{}", segs[cut..].join("/"));
                    if k != "missing-prefix" && tail.len() > 1 && resolves(&doc, &tail) {
                      k = "stale-prefix";
                      break;
                    }
                  }
                  k
                };
                ctx.report(&format!("location-does-not-resolve:{}", kind), json!({"schema": *st, "json": **j, "location": loc, "reason": reason}));
                break;
              }
            }
          }
        }
        ctx.nontrivial(hash_str(&format!("{}\u{0}{:?}{:?}", st, c.json, c.cbor.as_ref().map(|b| dv::hex(b)))));
      }
      Ok(V::Ok) => ctx.count("accepting_calls"),
      Ok(_) => ctx.count("other_results"),
    }
  }
  // (a) sequential repetition
  for (c, r) in calls.iter().zip(base.iter()) {
    let again = exec(c);
    ctx.count("calls_compared_sequential");
    if shape(&again) != shape(r) {
      ctx.report("nondeterministic:sequential-repeat", json!({"schema": *st, "json": c.json.as_deref(), "first": shape(r), "second": shape(&again)}));
      break;
    }
  }
  // (b) after unrelated calls
  {
    let g2 = gen_schema(&mut rng, Profile::shared());
    let st2 = vcore::schema_text(&g2);
    let docs2 = gen_docs(&g2, &mut rng, true, 5);
    for _ in 0..4 {
      for (v, _) in &docs2 {
        let _ = api::vjson(&st2, &v.to_json(), None);
        let mut r = Rng::new(0);
        let _ = api::vcbor(&st2, &dv::encode(v, &dv::CANON, &mut r), None);
      }
    }
    for (c, r) in calls.iter().zip(base.iter()) {
      let again = exec(c);
      ctx.count("calls_compared_after_unrelated");
      if shape(&again) != shape(r) {
        ctx.report("nondeterministic:after-unrelated-calls", json!({"schema": *st, "json": c.json.as_deref(), "first": shape(r), "later": shape(&again)}));
        break;
      }
    }
  }
  // (c) concurrent
  if !calls.is_empty() {
    let nthreads = 8;
    let barrier = Arc::new(Barrier::new(nthreads));
    let t0 = Instant::now();
    let calls = Arc::new(calls);
    let mut hs = vec![];
    for t in 0..nthreads {
      let (b, calls) = (barrier.clone(), calls.clone());
      hs.push(
        std::thread::Builder::new()
          .stack_size(32 << 20)
          .spawn(move || {
            crate::sup::install_thread_panic_capture();
            b.wait();
            let mut out: Vec<(usize, String, u128, u128)> = vec![];
            for rep in 0..3 {
              for k in 0..calls.len() {
                let i = (k + t * 3 + rep) % calls.len();
                let s = t0.elapsed().as_nanos();
                let r = exec(&calls[i]);
                let e = t0.elapsed().as_nanos();
                out.push((i, shape(&r), s, e));
              }
            }
            out
          })
          .expect("spawn"),
      );
    }
    let mut all: Vec<Vec<(usize, String, u128, u128)>> = vec![];
    for h in hs {
      if let Ok(o) = h.join() {
        all.push(o);
      }
    }
    // overlap measurement: pairs of calls from different threads whose intervals intersect
    let mut overlaps = 0u64;
    for a in 0..all.len() {
      for b2 in (a + 1)..all.len() {
        let (x, y) = (&all[a], &all[b2]);
        let mut j = 0;
        for (_, _, s, e) in x.iter() {
          while j < y.len() && y[j].3 < *s {
            j += 1;
          }
          let mut k = j;
          while k < y.len() && y[k].2 <= *e {
            overlaps += 1;
            k += 1;
          }
        }
      }
    }
    ctx.add("overlapping_call_pairs", overlaps);
    if overlaps == 0 {
      ctx.count("cases_without_overlap");
    }
    'outer: for o in &all {
      for (i, sh, _, _) in o {
        ctx.count("calls_compared_concurrent");
        if *sh != shape(&base[*i]) {
          ctx.report("nondeterministic:concurrent", json!({"schema": *st, "json": calls[*i].json.as_deref(), "sequential": shape(&base[*i]), "concurrent": sh}));
          break 'outer;
        }
      }
    }
    ctx.sample("concurrent", 1, || json!({"schema": *st, "calls": calls.len(), "threads": nthreads, "overlapping_call_pairs": overlaps}));
  }
  // (d) history independence on sibling calls: schemas that share their controller / literal texts
  // and differ in one operator are the hostile history for any memoisation keyed on too little.
  // Each call is made alone on a brand-new thread (empty thread-local state), then all calls are
  // made in order on one new thread and in reverse order on another; the three results of every
  // call must be equal.
  if idx % 2 == 1 {
    const PATS: &[&str] = &["[0-9]{3}", "a+", "b", "x|y", "[a-c]x", "é", "(ab)*", "."];
    const TOPS: &[&str] = &[".regexp", ".iregexp", ".pcre"];
    const TDOCS: &[&str] = &["abc123def", "123", "aaa", "b", "cabx", "xy", "é", "", "ab", "B", "a\nb"];
    const NOPS: &[&str] = &[".lt", ".le", ".gt", ".ge", ".eq", ".ne", ".size", ".bits"];
    const NUMS: &[&str] = &["0", "1", "2", "3", "255"];
    let forms = |t: &str| -> Vec<String> { vec![format!("a = {}\n", t), format!("a = {{ k: {} }}\n", t), format!("a = [* {}]\n", t), format!("a = b / nil\nb = {}\n", t)] };
    let textual = rng.chance(2, 3);
    let mut hcalls: Vec<Call> = vec![];
    let shared: Vec<&str> = (0..2).map(|_| if textual { rng.pick_str(PATS) } else { rng.pick_str(NUMS) }).collect();
    let form = rng.usize(4);
    for _ in 0..6 {
      let arg = shared[rng.usize(2)];
      let t = if textual { format!("tstr {} \"{}\"", rng.pick_str(TOPS), arg) } else { format!("{} {} {}", rng.pick_str(&["uint", "int", "bstr", "tstr"]), rng.pick_str(NOPS), arg) };
      // mostly the same surrounding form, so that sibling schemas differ in the operator only
      let f = if rng.chance(3, 4) { form } else { rng.usize(4) };
      let sch = Arc::new(forms(&t)[f].clone());
      for _ in 0..2 {
        let leaf = if textual { DV::Text(rng.pick_str(TDOCS).to_string()) } else { DV::Int(*rng.pick(&[0i128, 1, 2, 3, 4, 255, 256, -1])) };
        let v = match f {
          1 => DV::Map(vec![(DV::Text("k".into()), leaf)]),
          2 => DV::Array(vec![leaf.clone(), leaf]),
          _ => leaf,
        };
        hcalls.push(Call { schema: sch.clone(), json: Some(Arc::new(v.to_json())), cbor: None });
        let mut r = Rng::new(0);
        hcalls.push(Call { schema: sch.clone(), json: None, cbor: Some(Arc::new(dv::encode(&v, &dv::CANON, &mut r))) });
      }
    }
    let on_new_thread = |cs: Vec<Call>| -> Vec<String> {
      std::thread::Builder::new()
        .stack_size(32 << 20)
        .spawn(move || cs.iter().map(|c| shape(&exec(c))).collect::<Vec<String>>())
        .expect("spawn")
        .join()
        .unwrap_or_default()
    };
    let alone: Vec<String> = hcalls.iter().map(|c| on_new_thread(vec![c.clone()]).pop().unwrap_or_default()).collect();
    let fwd = on_new_thread(hcalls.clone());
    let mut rc = hcalls.clone();
    rc.reverse();
    let mut rev = on_new_thread(rc);
    rev.reverse();
    if fwd.len() == alone.len() && rev.len() == alone.len() {
      for i in 0..alone.len() {
        ctx.count("calls_compared_across_histories");
        if alone[i].starts_with("Invalid") {
          ctx.count("history_rejecting_calls");
        }
        if fwd[i] != alone[i] || rev[i] != alone[i] {
          let order = if fwd[i] != alone[i] { "forward" } else { "reverse" };
          let hist: Vec<String> = hcalls.iter().map(|c| format!("{} <- {}", c.schema.trim_end(), c.json.as_deref().map(|j| j.to_string()).unwrap_or_else(|| format!("h'{}'", c.cbor.as_ref().map(|b| dv::hex(b)).unwrap_or_default())))).collect();
          ctx.report(&format!("nondeterministic:history-dependent:{}", if hcalls[i].json.is_some() { "json" } else { "cbor" }), json!({"schema": *hcalls[i].schema, "json": hcalls[i].json.as_deref(), "cbor_hex": hcalls[i].cbor.as_ref().map(|b| dv::hex(b)), "alone_on_a_new_thread": alone[i], "after_the_sibling_calls": if order == "forward" { &fwd[i] } else { &rev[i] }, "order": order, "index": i, "calls_in_order": hist}));
          break;
        }
      }
    }
  }
  // error kinds
  if idx % 4 == 0 {
    let v = docs.first().map(|d| d.0.clone()).unwrap_or(DV::Int(1));
    let good_schema = "a = [* int] / { * tstr => any } / int / tstr / float / bool / nil\n";
    // malformed schema: mutants the parser rejects
    let mut bad_schema = None;
    for _ in 0..6 {
      let m = crate::corpus::mutate_text(&mut rng, &st);
      if cddl::cddl_from_str(&m, false).is_err() {
        bad_schema = Some(m);
        break;
      }
    }
    let bad_schema = bad_schema.unwrap_or_else(|| "a = [".to_string());
    let jtxt = v.to_json();
    let mut r = Rng::new(0);
    let cb = dv::encode(&v, &dv::CANON, &mut r);
    let kinds = |r: Result<V, String>| r.map(|v| v.kind()).unwrap_or("panic");
    let k_schema_j = kinds(api::vjson(&bad_schema, &jtxt, None));
    let k_schema_c = kinds(api::vcbor(&bad_schema, &cb, None));
    let bad_json = format!("{}{}", &jtxt, rng.pick_str(&["]", "}", " x", ",", "\"", " ["]));
    let k_doc_j = kinds(api::vjson(good_schema, &bad_json, None));
    let mut trunc = cb.clone();
    if trunc.len() > 1 {
      trunc.truncate(trunc.len() - 1);
    } else {
      trunc = vec![0x18];
    }
    let k_doc_c = kinds(api::vcbor(good_schema, &trunc, None));
    let k_inv_j = kinds(api::vjson("a = 1234567\n", &jtxt, None));
    let k_inv_c = kinds(api::vcbor("a = 1234567\n", &cb, None));
    ctx.count("error_kind_triples");
    for (what, got, want) in [("malformed-schema/json", k_schema_j, "schema-error"), ("malformed-schema/cbor", k_schema_c, "schema-error"), ("malformed-document/json", k_doc_j, "doc-error"), ("malformed-document/cbor", k_doc_c, "doc-error"), ("non-conforming/json", k_inv_j, "invalid"), ("non-conforming/cbor", k_inv_c, "invalid")] {
      if got != want && got != "panic" {
        ctx.report(&format!("error-kind:{}:reported-as-{}", what, got), json!({"expected_kind": want, "observed_kind": got, "schema": if what.starts_with("malformed-schema") { bad_schema.clone() } else { good_schema.to_string() }, "json": bad_json, "cbor_hex": dv::hex(&trunc)}));
      }
    }
  }
}
