//! C07 — literals denote exactly the value the RFC assigns, or the document is rejected.
//!
//! Values are produced first and spelled afterwards (every RFC 8610/9682 spelling
//! form, RFC 4648 for base16/base64), then placed in every syntactic position; the AST
//! field must carry exactly that value. Literals that are not representable or whose
//! encoding is invalid must make the parse fail.

use crate::gs::*;
use crate::rng::{hash_str, Rng};
use crate::skel;
use crate::sup::{default_shards, guard, Ctx, PropDef, Summary, Tier};
use crate::synx::{render, Mode};
use serde_json::json;

pub static DEF: PropDef = PropDef {
  id: "C07",
  level: "exploration",
  cases,
  run,
  stack_mb: 64,
  case_cpu_s: 60.0,
  crash_is_event: false,
  rule: "A value is drawn (uint/nint at and around 0, 2^8..2^64-1, -2^63; floats incl. +-0, subnormals, extremes, m*2^e for hexfloats; text over ASCII, quotes, backslash, control characters, BMP and astral characters; byte strings of length 0..12), spelled in a randomly chosen form (decimal, 0x/0X/0b/0B with mixed case and leading zeros, fraction/exponent/hexfloat forms, text escapes \\n \\t \\\" \\\\ \\/ \\b \\f \\r \\uXXXX, surrogate pairs, \\u{...} with leading zeros, '...', h'...' with case/white space/comments, b64'...' in both alphabets with optional padding and white space) and placed in one of 24 syntactic positions (type, choice, value and type member keys, cut key, range bounds, control argument, generic argument, array element, occurrence bounds, tag / simple / major numbers, group rule). The AST skeleton (kind and value, floats by bits) must equal the derivation. Invalid or unrepresentable spellings (68 templates: out-of-range ints/floats/hexfloats, occurrence and tag overflow, lone/reversed surrogates, out-of-range \\u{}, odd or non-hex base16, bad/mixed-alphabet/mis-padded base64) in the same positions must be rejected. Non-trivial = a case whose spelling is not the canonical decimal/plain one; distinct by document text.",
  assumptions: &[
    "decimal floating-point spellings are mapped to f64 by Rust's standard library (correctly rounded); hexfloat values are built exactly as m*2^e by the harness",
    "underflow of a decimal float literal to 0 or to a subnormal is rounding, not unrepresentability (not judged); overflow to infinity is unrepresentable",
    "concatenated padded base64 groups (b64'AA==AA==') are accepted by the data-encoding dependency and not judged; escapes inside '...' byte strings other than \\' and \\\\ are not generated (RFC 9682 semantics of SESC inside byte strings are not decided here)",
  ],
  required,
  post: None,
  shards: default_shards,
};

fn cases(t: Tier) -> u64 {
  match t {
    Tier::Quick => 40_000,
    Tier::Thorough => 3_000_000,
  }
}

fn required(s: &Summary) -> Option<String> {
  if s.c("valid_cases") < 10_000 || s.c("invalid_cases") < 2_000 {
    return Some(format!("valid {} invalid {}", s.c("valid_cases"), s.c("invalid_cases")));
  }
  None
}

// ---------------------------------------------------------------------------
// value + spelling

fn hexcase(s: String, rng: &mut Rng) -> (String, &'static str) {
  match rng.below(3) {
    0 => (s.to_lowercase(), "lower"),
    1 => (s.to_uppercase(), "upper"),
    _ => (s.chars().map(|c| if rng.bool() { c.to_ascii_uppercase() } else { c.to_ascii_lowercase() }).collect(), "mixed"),
  }
}

pub fn spell_uint_c(n: u64, rng: &mut Rng) -> (String, String) {
  match rng.below(5) {
    0 | 1 => (n.to_string(), "dec".into()),
    2 | 3 => {
      let (h, c) = hexcase(format!("{:x}", n), rng);
      let z = if rng.chance(1, 4) { "0".repeat(1 + rng.usize(3)) } else { String::new() };
      let p = if rng.chance(1, 3) { "0X" } else { "0x" };
      (format!("{}{}{}", p, z, h), format!("hex-{}{}{}", c, if z.is_empty() { "" } else { "-lz" }, if p == "0X" { "-0X" } else { "" }))
    }
    _ => {
      let z = if rng.chance(1, 4) { "0".repeat(1 + rng.usize(3)) } else { String::new() };
      let p = if rng.chance(1, 3) { "0B" } else { "0b" };
      (format!("{}{}{:b}", p, z, n), format!("bin{}{}", if z.is_empty() { "" } else { "-lz" }, if p == "0B" { "-0B" } else { "" }))
    }
  }
}

fn gen_uint(rng: &mut Rng) -> u64 {
  match rng.below(6) {
    0 => *rng.pick(&[0u64, 1, 9, 10, 23, 24, 255, 256, 65535, 65536, 4294967295, 4294967296, 9007199254740992, 9223372036854775807, 9223372036854775808, 18446744073709551614, 18446744073709551615]),
    1 => rng.next_u64(),
    2 => rng.next_u64() >> rng.below(64),
    _ => rng.below(1000),
  }
}

fn gen_float(rng: &mut Rng) -> (String, f64, String) {
  match rng.below(8) {
    0 | 1 => {
      // decimal with fraction, value by the standard library
      let i = rng.below(100000);
      let f = rng.below(1000000);
      let neg = rng.bool();
      let s = format!("{}{}.{}", if neg { "-" } else { "" }, i, f);
      let v: f64 = s.parse().unwrap();
      (s, v, "dec-fraction".into())
    }
    2 | 3 => {
      let i = rng.below(1000);
      let e = rng.range(-320, 308);
      let frac = if rng.bool() { format!(".{}", rng.below(1000)) } else { String::new() };
      let es = match rng.below(3) {
        0 if e >= 0 => format!("+{}", e),
        1 => format!("{:03}", e),
        _ => e.to_string(),
      };
      let ec = if rng.bool() { "e" } else { "E" };
      let s = format!("{}{}{}{}{}", if rng.bool() { "-" } else { "" }, i, frac, ec, es);
      let v: f64 = s.parse().unwrap();
      if !v.is_finite() {
        // beyond the f64 range: an *invalid* literal, covered by the INVALID templates
        return ("1e5".into(), 1e5, "exp-nofrac".into());
      }
      (s, v, format!("exp{}{}", if frac.is_empty() { "-nofrac" } else { "" }, if ec == "E" { "-E" } else { "" }))
    }
    4 | 5 => {
      // hexfloat: m * 2^e exactly
      let mbits = 1 + rng.below(53);
      let m = (rng.next_u64() >> (64 - mbits)) | 1;
      let e = rng.range(-1074, 960);
      let v = (m as f64) * 2f64.powi(e as i32);
      if !v.is_finite() || v == 0.0 || (m as f64) * 2f64.powi(e as i32) / 2f64.powi(e as i32) != m as f64 {
        return ("0x1p0".into(), 1.0, "hexfloat".into());
      }
      // optionally move k hex digits behind the point: m = hi.lo * 16^k
      let hexm = format!("{:x}", m);
      let k = if hexm.len() > 1 && rng.bool() { 1 + rng.usize(hexm.len() - 1) } else { 0 };
      let (mant, e2) = if k > 0 { (format!("{}.{}", &hexm[..hexm.len() - k], &hexm[hexm.len() - k..]), e + 4 * k as i64) } else { (hexm, e) };
      let (mant, c) = hexcase(mant, rng);
      let neg = rng.bool();
      let s = format!("{}{}{}{}{}{}", if neg { "-" } else { "" }, if rng.chance(1, 3) { "0X" } else { "0x" }, mant, if rng.bool() { "p" } else { "P" }, if e2 >= 0 && rng.bool() { "+" } else { "" }, e2);
      (s, if neg { -v } else { v }, format!("hexfloat-{}{}", c, if k > 0 { "-frac" } else { "" }))
    }
    6 => {
      let (s, v) = *rng.pick(&[("0.0", 0.0f64), ("-0.0", -0.0), ("1.0", 1.0), ("5e-324", 5e-324), ("1.7976931348623157e308", 1.7976931348623157e308), ("2.2250738585072014e-308", 2.2250738585072014e-308), ("0.1", 0.1), ("1e0", 1.0), ("-0e0", -0.0), ("9007199254740993.0", 9007199254740992.0), ("1.0e+00", 1.0)]);
      (s.to_string(), v, "special".into())
    }
    _ => {
      let v = f64::from_bits(rng.next_u64());
      if !v.is_finite() {
        return ("1.5".into(), 1.5, "dec-fraction".into());
      }
      let s = format!("{:?}", v);
      let s = if s.contains('.') || s.contains('e') { s } else { format!("{}.0", s) };
      (s, v, "shortest".into())
    }
  }
}

const TEXT_CHARS: &[char] = &[
  'a', 'Z', '0', ' ', '"', '\\', '/', '\'', ';', '\n', '\r', '\t', '\u{8}', '\u{c}', '\u{0}', '\u{1f}', '\u{7f}', 'é', 'ß', '\u{a0}', '日', '\u{d7ff}', '\u{e000}', '\u{fffd}', '\u{ffff}', '\u{10000}', '😀',
  '\u{1f073}', '\u{20000}', '\u{effff}', '\u{10ffff}', '\u{100000}',
];

fn gen_text(rng: &mut Rng) -> (String, String, String) {
  let n = rng.usize(6);
  let mut val = String::new();
  let mut sp = String::from("\"");
  let mut forms: std::collections::BTreeSet<&'static str> = Default::default();
  for _ in 0..n {
    let c = *rng.pick(TEXT_CHARS);
    val.push(c);
    let cp = c as u32;
    let must = c == '"' || c == '\\' || cp < 0x20 || cp == 0x7f;
    let mut choices: Vec<u8> = vec![];
    if !must {
      choices.extend([0, 0, 0]);
    }
    if matches!(c, '"' | '\\' | '/' | '\n' | '\r' | '\t' | '\u{8}' | '\u{c}') {
      choices.extend([1, 1]);
    }
    if cp <= 0xffff {
      choices.push(2);
    } else {
      choices.push(3);
    }
    choices.push(4);
    match *rng.pick(&choices) {
      0 => {
        sp.push(c);
        forms.insert("raw");
      }
      1 => {
        sp.push('\\');
        sp.push(match c {
          '\n' => 'n',
          '\r' => 'r',
          '\t' => 't',
          '\u{8}' => 'b',
          '\u{c}' => 'f',
          x => x,
        });
        forms.insert("simple");
      }
      2 => {
        let (h, _) = hexcase(format!("{:04x}", cp), rng);
        sp.push_str(&format!("\\u{}", h));
        forms.insert("u4");
      }
      3 => {
        let v = cp - 0x10000;
        let (h, _) = hexcase(format!("{:04x}", 0xD800 + (v >> 10)), rng);
        let (l, _) = hexcase(format!("{:04x}", 0xDC00 + (v & 0x3ff)), rng);
        sp.push_str(&format!("\\u{}\\u{}", h, l));
        forms.insert("pair");
      }
      _ => {
        let z = "0".repeat(rng.usize(4));
        let (h, _) = hexcase(format!("{:x}", cp), rng);
        sp.push_str(&format!("\\u{{{}{}}}", z, h));
        forms.insert(if z.is_empty() { "brace" } else { "brace-lz" });
      }
    }
  }
  sp.push('"');
  let class = if forms.is_empty() { "empty".to_string() } else { forms.into_iter().collect::<Vec<_>>().join("+") };
  (sp, val, class)
}

fn gen_bytes(rng: &mut Rng) -> (String, GLit, String) {
  let n = rng.usize(13);
  let b: Vec<u8> = (0..n).map(|_| if rng.chance(1, 4) { *rng.pick(&[0u8, 0xff, 0x7f, 0x80, 0x27, 0x5c]) } else { rng.below(256) as u8 }).collect();
  match rng.below(3) {
    0 => {
      // '...' : printable text without quote/backslash, or with the two escapes \' and \\
      let pool = b"abcXYZ019 ;,:=/#[](){}<>\"~&^*+?.-_$@!%|";
      let raw: Vec<u8> = (0..n).map(|_| *rng.pick(pool)).collect();
      let mut sp = String::from("'");
      let mut val = raw.clone();
      let mut cls = "utf8-plain";
      sp.push_str(&String::from_utf8_lossy(&raw));
      if rng.chance(1, 4) {
        sp.push_str("é日");
        val.extend("é日".as_bytes());
        cls = "utf8-nonascii";
      }
      sp.push('\'');
      (sp, GLit::Bytes(BK::Utf8, val), cls.into())
    }
    1 => {
      let mut sp = String::from("h'");
      let mut cls: std::collections::BTreeSet<&'static str> = Default::default();
      cls.insert("hex");
      for x in &b {
        if rng.chance(1, 5) {
          sp.push_str(rng.pick_str(&[" ", "\n", "  ", "\t"]));
          cls.insert("ws");
        }
        if rng.chance(1, 25) {
          sp.push_str("; c\n");
          cls.insert("comment");
        }
        let (h, _) = hexcase(format!("{:02x}", x), rng);
        sp.push_str(&h);
      }
      if rng.chance(1, 6) {
        sp.push(' ');
        cls.insert("ws");
      }
      sp.push('\'');
      (sp, GLit::Bytes(BK::Hex, b), cls.into_iter().collect::<Vec<_>>().join("+"))
    }
    _ => {
      let std_al = rng.bool();
      let pad = rng.bool();
      let mut e = b64_encode(&b, std_al, pad);
      let mut cls = format!("b64-{}{}", if std_al { "std" } else { "url" }, if pad { "-pad" } else { "" });
      if rng.chance(1, 4) && e.len() > 2 {
        let p = 1 + rng.usize(e.len() - 1);
        e.insert_str(p, rng.pick_str(&[" ", "\n", "  "]));
        cls.push_str("-ws");
      }
      (format!("b64'{}'", e), GLit::Bytes(BK::B64, b), cls)
    }
  }
}

/// (spelled literal with its value, kind, spelling class)
fn gen_lit(rng: &mut Rng, numeric_only: bool) -> (GLit, &'static str, String) {
  let k = if numeric_only { rng.below(3) } else { rng.below(5) };
  match k {
    0 => {
      let n = gen_uint(rng);
      let (s, c) = spell_uint_c(n, rng);
      (GLit::Raw(s, Box::new(GLit::Uint(n))), "uint", c)
    }
    1 => {
      // negative integers down to isize::MIN
      let m = match rng.below(4) {
        0 => *rng.pick(&[1u64, 24, 25, 256, 257, 65536, 4294967296, 9223372036854775807, 9223372036854775808]),
        1 => 1 + (rng.next_u64() >> 1),
        _ => 1 + rng.below(1000),
      };
      let (s, c) = spell_uint_c(m, rng);
      (GLit::Raw(format!("-{}", s), Box::new(GLit::Nint(-(m as i128)))), "nint", c)
    }
    2 => {
      let (s, v, c) = gen_float(rng);
      (GLit::Raw(s, Box::new(GLit::Float(v))), "float", c)
    }
    3 => {
      let (s, v, c) = gen_text(rng);
      (GLit::Raw(s, Box::new(GLit::Text(v))), "text", c)
    }
    _ => {
      let (s, v, c) = gen_bytes(rng);
      (GLit::Raw(s, Box::new(v)), "bytes", c)
    }
  }
}

// ---------------------------------------------------------------------------
// positions

const POSITIONS: &[&str] = &[
  "type", "choice2", "paren", "key-value", "key-value-group", "key-type", "key-cut", "range-lo", "range-hi", "range-excl-hi", "ctl-arg", "ctl-lhs", "generic-arg", "array-elem", "array-occ-elem", "tag-content",
  "map-value", "group-rule-key", "enum-inline", "occ-lower", "occ-upper", "occ-both", "tag-number", "simple-number",
];

fn lit2(l: &GLit) -> GType2 {
  GType2::Lit(l.clone())
}

fn rule(name: &str, body: GType) -> GRule {
  GRule { name: name.into(), params: vec![], assign: Assign::Eq, body: GBody::Type(body) }
}

fn grp(entries: Vec<GEntry>) -> GGroup {
  GGroup { choices: vec![GChoice { entries }] }
}

/// None when the position does not admit this literal kind
fn place(pos: &str, l: &GLit, kind: &str, rng: &mut Rng) -> Option<GS> {
  let numeric = matches!(kind, "uint" | "nint" | "float");
  let int_e = GEntry::Val { occ: None, key: None, ty: tname("int") };
  let t = match pos {
    "type" => ty(lit2(l)),
    "choice2" => GType { choices: vec![t1(name("int")), t1(lit2(l)), t1(name("tstr"))] },
    "paren" => ty(GType2::Paren(ty(lit2(l)))),
    "key-value" => ty(GType2::Map(grp(vec![GEntry::Val { occ: None, key: Some(GKey::Value(l.clone())), ty: tname("int") }]))),
    "key-value-group" => ty(GType2::Array(grp(vec![GEntry::Inline { occ: Some(GOcc::Star), group: grp(vec![GEntry::Val { occ: Some(GOcc::Opt), key: Some(GKey::Value(l.clone())), ty: tname("int") }]) }]))),
    "key-type" => ty(GType2::Map(grp(vec![GEntry::Val { occ: None, key: Some(GKey::Type1 { t1: t1(lit2(l)), cut: false }), ty: tname("int") }]))),
    "key-cut" => ty(GType2::Map(grp(vec![GEntry::Val { occ: Some(GOcc::Star), key: Some(GKey::Type1 { t1: t1(lit2(l)), cut: true }), ty: tname("int") }]))),
    "range-lo" if numeric => GType { choices: vec![GType1 { t2: lit2(l), op: Some((GOp::Range { incl: true }, name("x"))) }] },
    "range-hi" if numeric => GType { choices: vec![GType1 { t2: name("x"), op: Some((GOp::Range { incl: true }, lit2(l))) }] },
    "range-excl-hi" if numeric => GType { choices: vec![GType1 { t2: GType2::Lit(GLit::Uint(0)), op: Some((GOp::Range { incl: false }, lit2(l))) }] },
    "ctl-arg" => GType { choices: vec![GType1 { t2: name("any"), op: Some((GOp::Ctl(rng.pick_str(&["eq", "ne", "size", "lt", "ge", "default", "regexp", "bits"]).to_string()), lit2(l))) }] },
    "ctl-lhs" => GType { choices: vec![GType1 { t2: lit2(l), op: Some((GOp::Ctl(rng.pick_str(&["cat", "plus", "det", "within", "and"]).to_string()), name("x"))) }] },
    "generic-arg" => ty(GType2::Name("g".into(), vec![t1(lit2(l)), t1(name("int"))])),
    "array-elem" => ty(GType2::Array(grp(vec![int_e.clone(), GEntry::Val { occ: None, key: None, ty: ty(lit2(l)) }]))),
    "array-occ-elem" => ty(GType2::Array(grp(vec![GEntry::Val { occ: Some(GOcc::Plus), key: None, ty: ty(lit2(l)) }]))),
    "tag-content" => ty(GType2::Tag(Some(GTagC::Lit(24)), ty(lit2(l)))),
    "map-value" => ty(GType2::Map(grp(vec![GEntry::Val { occ: None, key: Some(GKey::Bare("k".into())), ty: ty(lit2(l)) }]))),
    "enum-inline" => ty(GType2::EnumInline(grp(vec![GEntry::Val { occ: None, key: Some(GKey::Bare("k".into())), ty: ty(lit2(l)) }]))),
    "group-rule-key" => {
      return Some(GS {
        rules: vec![
          rule("a", ty(GType2::Map(grp(vec![GEntry::Name { occ: None, name: "gr".into(), args: vec![] }])))),
          GRule {
            name: "gr".into(),
            params: vec![],
            assign: Assign::Eq,
            body: GBody::Group(GEntry::Inline { occ: None, group: grp(vec![GEntry::Val { occ: None, key: Some(GKey::Value(l.clone())), ty: ty(lit2(l)) }]) }),
          },
        ],
      })
    }
    // positions that take a bare uint: the Raw spelling is spliced through the numeric fields by `splice`
    "occ-lower" | "occ-upper" | "occ-both" | "tag-number" | "simple-number" if kind == "uint" => return None,
    _ => return None,
  };
  let mut rules = vec![rule("a", t)];
  if pos == "generic-arg" {
    rules.push(GRule { name: "g".into(), params: vec!["t".into(), "u".into()], assign: Assign::Eq, body: GBody::Type(GType { choices: vec![t1(name("t")), t1(name("u"))] }) });
  }
  if matches!(pos, "range-lo" | "range-hi" | "ctl-lhs") {
    rules.push(rule("x", ty(GType2::Lit(GLit::Uint(5)))));
  }
  Some(GS { rules })
}

/// positions whose number is not a GLit in the derivation tree: the text is built from a template
fn splice(pos: &str, n: u64, spelled: &str, n2: u64, spelled2: &str) -> Option<(String, Vec<String>)> {
  let e = |occ: GOcc| -> Vec<String> { skel::skel_gs(&GS { rules: vec![rule("a", ty(GType2::Array(grp(vec![GEntry::Val { occ: Some(occ), key: None, ty: tname("int") }]))))] }) };
  match pos {
    "occ-lower" => Some((format!("a = [ {}* int ]\n", spelled), e(GOcc::Range(Some(n), None)))),
    "occ-upper" => Some((format!("a = [ *{} int ]\n", spelled), e(GOcc::Range(None, Some(n))))),
    "occ-both" => Some((format!("a = [ {}*{} int ]\n", spelled, spelled2), e(GOcc::Range(Some(n), Some(n2))))),
    "tag-number" => Some((format!("a = #6.{}(int)\n", spelled), skel::skel_gs(&GS { rules: vec![rule("a", ty(GType2::Tag(Some(GTagC::Lit(n)), tname("int"))))] }))),
    "simple-number" => Some((format!("a = #7.{} / #1.{}\n", spelled, spelled2), skel::skel_gs(&GS { rules: vec![rule("a", GType { choices: vec![t1(GType2::Major(7, Some(GTagC::Lit(n)))), t1(GType2::Major(1, Some(GTagC::Lit(n2))))] })] }))),
    _ => None,
  }
}

fn parse_skel(text: &str) -> Result<Result<Vec<String>, String>, String> {
  guard(|| cddl::cddl_from_str(text, false).map(|c| skel::skel_ast(&c)))
}

fn check_valid(ctx: &mut Ctx, text: &str, want: &[String], kind: &str, class: &str, pos: &str) {
  ctx.eval();
  ctx.count("valid_cases");
  ctx.count(&format!("kind:{}", kind));
  ctx.count(&format!("pos:{}", pos));
  ctx.count(&format!("spelling:{}:{}", kind, class));
  if !(class == "dec" || class == "raw" || class == "utf8-plain" || class == "empty") {
    ctx.nontrivial(hash_str(text));
  }
  match parse_skel(text) {
    Err(p) => {
      ctx.count("panics_left_to_C05");
      ctx.note(format!("panic (C05 owns this): {}", crate::api::norm_panic(&p)));
    }
    Ok(Err(e)) => ctx.report(&format!("reject-valid:{}:{}:{}", kind, class, pos), json!({"text": text, "error": e})),
    Ok(Ok(got)) => {
      if got != want {
        let (w, o) = skel::first_diff(want, &got).map(|(_, w, o)| (w, o)).unwrap_or_default();
        ctx.report(&format!("value:{}:{}:{}", kind, class, pos), json!({"text": text, "expected": w, "observed": o}));
      } else {
        ctx.count("valid_held");
        ctx.sample(&format!("valid-{}", kind), 1, || json!({"text": text, "skeleton": got}));
      }
    }
  }
}

/// (spelling, why it must be rejected, kind for placement)
const INVALID: &[(&str, &str, &str)] = &[
  ("18446744073709551616", "uint-overflow-dec", "uint"),
  ("0x10000000000000000", "uint-overflow-hex", "uint"),
  ("0X1ffffffffffffffff", "uint-overflow-hex", "uint"),
  ("0b10000000000000000000000000000000000000000000000000000000000000000", "uint-overflow-bin", "uint"),
  ("99999999999999999999999999", "uint-overflow-dec", "uint"),
  ("-9223372036854775809", "nint-overflow-dec", "nint"),
  ("-18446744073709551615", "nint-overflow-dec", "nint"),
  ("-18446744073709551616", "nint-overflow-dec", "nint"),
  ("-0x8000000000000001", "nint-overflow-hex", "nint"),
  ("-0xffffffffffffffff", "nint-overflow-hex", "nint"),
  ("-0b1000000000000000000000000000000000000000000000000000000000000001", "nint-overflow-bin", "nint"),
  ("1e999", "float-overflow", "float"),
  ("-1e999", "float-overflow", "float"),
  ("1.7976931348623159e308", "float-overflow", "float"),
  ("17976931348623159000000000000000000000000000000000000000000000000000000000000000000000000000000000000000000000000000000000000000000000000000000000000000000000000000000000000000000000000000000000000000000000000000000000000000000000000000000000000000000000000000000000000000000000000000000000000000000000000000000000000000.0", "float-overflow", "float"),
  ("0x1p1024", "hexfloat-overflow", "float"),
  ("-0x1p1024", "hexfloat-overflow", "float"),
  ("0x1.fffffffffffff8p1023", "hexfloat-overflow", "float"),
  ("0x1p99999", "hexfloat-overflow", "float"),
  ("\"\\uD800\"", "lone-high-surrogate", "text"),
  ("\"\\uDBFF\"", "lone-high-surrogate", "text"),
  ("\"\\uDC00\"", "lone-low-surrogate", "text"),
  ("\"\\uDFFF\"", "lone-low-surrogate", "text"),
  ("\"a\\ud83cb\"", "lone-high-surrogate", "text"),
  ("\"\\uD800\\u0041\"", "high-surrogate-then-bmp", "text"),
  ("\"\\uD83C\\uD83C\"", "high-surrogate-twice", "text"),
  ("\"\\uDC00\\uD800\"", "reversed-pair", "text"),
  ("\"\\uD83Cx\"", "lone-high-surrogate", "text"),
  ("\"\\uD83C\\n\"", "lone-high-surrogate", "text"),
  ("\"\\u{110000}\"", "brace-out-of-range", "text"),
  ("\"\\u{FFFFFFFF}\"", "brace-out-of-range", "text"),
  ("\"\\u{100000000}\"", "brace-out-of-range", "text"),
  ("\"\\u{D800}\"", "brace-surrogate", "text"),
  ("\"\\u{dfff}\"", "brace-surrogate", "text"),
  ("\"\\u{00D800}\"", "brace-surrogate", "text"),
  ("\"\\u{}\"", "brace-empty", "text"),
  ("\"\\u{g}\"", "brace-nonhex", "text"),
  ("\"\\u12\"", "u4-short", "text"),
  ("\"\\u12G4\"", "u4-nonhex", "text"),
  ("\"\\x41\"", "unknown-escape", "text"),
  ("\"\\a\"", "unknown-escape", "text"),
  ("\"\\\"", "dangling-backslash", "text"),
  ("h'0'", "hex-odd", "bytes"),
  ("h'012'", "hex-odd", "bytes"),
  ("h'0 1 2'", "hex-odd", "bytes"),
  ("h'0g'", "hex-nondigit", "bytes"),
  ("h'zz'", "hex-nondigit", "bytes"),
  ("h'0x01'", "hex-nondigit", "bytes"),
  ("h'01-02'", "hex-nondigit", "bytes"),
  ("b64'A'", "b64-length", "bytes"),
  ("b64'AAAAA'", "b64-length", "bytes"),
  ("b64'AA=A'", "b64-padding-inside", "bytes"),
  ("b64'=AAA'", "b64-padding-inside", "bytes"),
  ("b64'A==='", "b64-padding-wrong", "bytes"),
  ("b64'AAA=='", "b64-padding-wrong", "bytes"),
  ("b64'A-+A'", "b64-mixed-alphabets", "bytes"),
  ("b64'_/__'", "b64-mixed-alphabets", "bytes"),
  ("b64'AA*A'", "b64-bad-char", "bytes"),
  ("b64'AAé='", "b64-bad-char", "bytes"),
  ("b64'AA.A'", "b64-bad-char", "bytes"),
];

/// invalid numbers in the positions that take a bare number: (template, why)
const INVALID_SPLICED: &[(&str, &str)] = &[
  ("a = [ 18446744073709551616* int ]\n", "occurrence-lower-overflow"),
  ("a = [ *18446744073709551616 int ]\n", "occurrence-upper-overflow"),
  ("a = [ 1*0x10000000000000000 int ]\n", "occurrence-upper-overflow"),
  ("a = [ 0b10000000000000000000000000000000000000000000000000000000000000000*2 int ]\n", "occurrence-lower-overflow"),
  ("a = { 99999999999999999999* tstr => int }\n", "occurrence-lower-overflow"),
  ("a = #6.18446744073709551616(int)\n", "tag-number-overflow"),
  ("a = #6.0x10000000000000000(int)\n", "tag-number-overflow"),
  ("a = #7.18446744073709551616\n", "simple-number-overflow"),
  ("a = #1.18446744073709551616\n", "major-ai-overflow"),
];

fn check_invalid(ctx: &mut Ctx, text: &str, why: &str, pos: &str) {
  ctx.eval();
  ctx.count("invalid_cases");
  ctx.count(&format!("invalid:{}", why));
  ctx.nontrivial(hash_str(text));
  match parse_skel(text) {
    Err(p) => {
      ctx.count("panics_left_to_C05");
      ctx.note(format!("panic (C05 owns this): {}", crate::api::norm_panic(&p)));
    }
    Ok(Err(_)) => {
      ctx.count("invalid_rejected");
      ctx.sample("invalid", 2, || json!({"text": text, "why": why, "observed": "rejected"}));
    }
    Ok(Ok(got)) => ctx.report(&format!("accepted-invalid:{}", why), json!({"text": text, "position": pos, "why": why, "observed_skeleton": got})),
  }
}

fn run(ctx: &mut Ctx, idx: u64) {
  let mut rng = ctx.rng.clone();
  if idx % 6 == 5 {
    // invalid / unrepresentable spellings
    if rng.chance(1, 6) {
      let (t, why) = *rng.pick(INVALID_SPLICED);
      check_invalid(ctx, t, why, "spliced");
      return;
    }
    let (sp, why, kind) = *rng.pick(INVALID);
    for _ in 0..4 {
      let pos = *rng.pick(POSITIONS);
      let l = GLit::Raw(sp.to_string(), Box::new(GLit::Uint(0)));
      if let Some(g) = place(pos, &l, kind, &mut rng) {
        let text = render(&g, &Mode::Plain);
        check_invalid(ctx, &text, why, pos);
        return;
      }
    }
    check_invalid(ctx, &format!("a = {}\n", sp), why, "type");
    return;
  }
  let pos = *rng.pick(POSITIONS);
  if matches!(pos, "occ-lower" | "occ-upper" | "occ-both" | "tag-number" | "simple-number") {
    let cap = |n: u64, rng: &mut Rng| if pos.starts_with("occ") && rng.bool() { n % 1000 } else { n };
    let n = {
      let v = gen_uint(&mut rng);
      cap(v, &mut rng)
    };
    let n2 = {
      let v = gen_uint(&mut rng);
      cap(v, &mut rng)
    };
    let (s1, c1) = spell_uint_c(n, &mut rng);
    let (s2, _) = spell_uint_c(n2, &mut rng);
    if let Some((text, want)) = splice(pos, n, &s1, n2, &s2) {
      check_valid(ctx, &text, &want, "uint", &c1, pos);
    }
    return;
  }
  let numeric_only = matches!(pos, "range-lo" | "range-hi" | "range-excl-hi");
  let (l, kind, class) = gen_lit(&mut rng, numeric_only);
  if let Some(g) = place(pos, &l, kind, &mut rng) {
    let text = render(&g, &Mode::Plain);
    let want = skel::skel_gs(&g);
    check_valid(ctx, &text, &want, kind, &class, pos);
  }
}
