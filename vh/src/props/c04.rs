//! C04 — JSON and CBOR validators give the same verdict on the same data.

use crate::dv::DV;
use crate::gs::{self, Profile, GS};
use crate::props::c01::{gen_docs, gen_schema};
use crate::rng::hash_str;
use crate::sup::{default_shards, Ctx, PropDef, Summary, Tier};
use crate::vcore;
use serde_json::json;

pub static DEF: PropDef = PropDef {
  id: "C04",
  level: "exploration",
  cases,
  run,
  stack_mb: 64,
  case_cpu_s: 10.0,
  crash_is_event: false,
  rule: "Schemas over the shared feature set (core fragment + generics, sockets and /= //= increments, unwrap, group-to-choice, ranges incl. float ranges, .lt .le .gt .ge .eq .ne .size .and .within .default) x values of the JSON data model (null, booleans, integers, non-integral floats, text, arrays, text-keyed maps; members, near misses, unrelated). Each value is validated as JSON text by validate_json_from_str and as its canonical CBOR encoding by validate_cbor_from_slice: the two verdicts must be equal (the two implementations monitor each other; R-eval's verdict is recorded only to say which side is wrong). Disagreements are shrunk on schema and value, steering away from listed constructs. Non-trivial = schema with >= 3 construct tags on which both validators returned a verdict for >= 4 values, including an accept and a reject; distinct by schema text.",
  assumptions: &[
    "integral floats are not generated (JSON cannot express the int/float distinction)",
    "a case where either validator returns no verdict (schema rejected, panic) is counted, not judged",
  ],
  required,
  post: None,
  shards: default_shards,
};

fn cases(t: Tier) -> u64 {
  match t {
    Tier::Quick => 6_000,
    Tier::Thorough => 80_000,
  }
}

fn required(s: &Summary) -> Option<String> {
  if s.c("both_accept") < 2000 || s.c("both_reject") < 2000 {
    return Some(format!("both accept {} both reject {}", s.c("both_accept"), s.c("both_reject")));
  }
  None
}

pub fn split(st: &str, v: &DV) -> Option<(bool, bool)> {
  Some((vcore::impl_json(st, v)?, vcore::impl_cbor(st, v)?))
}

fn run(ctx: &mut Ctx, _idx: u64) {
  let mut rng = ctx.rng.clone();
  // every fifth case takes the next schema of the hand-written interaction corpus
  let trees = crate::corpus::trees_for(false);
  let g = if _idx % 5 == 4 && !trees.is_empty() {
    ctx.count("schemas_from_corpus");
    trees[(_idx / 5) as usize % trees.len()].clone()
  } else {
    gen_schema(&mut rng, Profile::shared())
  };
  let st = vcore::schema_text(&g);
  let tags = gs::tags(&g);
  let docs = gen_docs(&g, &mut rng, true, 10);
  let (mut acc, mut rej, mut n) = (0, 0, 0);
  for (v, origin) in &docs {
    ctx.eval();
    ctx.count(&format!("origin:{}", origin));
    let (j, c) = match split(&st, v) {
      Some(x) => x,
      None => {
        ctx.count("no_verdict_skipped");
        continue;
      }
    };
    n += 1;
    if j == c {
      if j {
        ctx.count("both_accept");
        acc += 1;
      } else {
        ctx.count("both_reject");
        rej += 1;
      }
      ctx.sample(if j { "both-accept" } else { "both-reject" }, 2, || json!({"schema": st, "value": v.to_json()}));
      continue;
    }
    let dir = if j { "json-ok-cbor-err" } else { "json-err-cbor-ok" };
    ctx.count(&format!("split:{}", dir));
    let score = |cg: &GS, cv: &DV| ctx.known_score(&vcore::sig_of(dir, cg, cv));
    let (sg, sv) = vcore::shrink_pair(&g, v, 4000, &mut |cg, cv| cv.is_json() && gs::wellformed(cg) && split(&vcore::schema_text(cg), cv) == Some((j, c)), &score);
    let sig = vcore::sig_of(dir, &sg, &sv);
    let m = vcore::model(&sg, &sv, true);
    ctx.report(
      &sig,
      json!({"schema": st, "value": v.to_json(), "json_verdict": j, "cbor_verdict": c, "shrunk_schema": vcore::schema_text(&sg), "shrunk_json": sv.to_json(), "rfc_model_on_shrunk": m.name()}),
    );
  }
  for t in &tags {
    ctx.count(&format!("tag:{}", t));
  }
  if tags.len() >= 3 && n >= 4 && acc > 0 && rej > 0 {
    ctx.nontrivial(hash_str(&st));
  }
}
