//! C11 — CBOR decoding implements RFC 8949 well-formedness and values.
//! Oracle: R-cbor (dv::model_decode). Exhaustive for all byte strings of length
//! 0..=2, structured for 3..=10 bytes, generated/mutated/truncated beyond.

use crate::dv::{self, model_decode, DV};
use crate::rng::{hash_bytes, Rng};
use crate::sup::{default_shards, guard, Ctx, PropDef, Summary, Tier};
use cddl::validator::cbor_value::{decode_cbor, Value};
use serde_json::json;

pub static DEF: PropDef = PropDef {
  id: "C11",
  level: "exploration",
  cases,
  run,
  stack_mb: 64,
  case_cpu_s: 60.0,
  crash_is_event: true,
  rule: "decode_cbor(bytes) compared with an independent RFC 8949 decoder on: every byte string of length 0..=2 (exhaustive), every initial byte x boundary arguments x payload variants (3..=10 bytes), generated data items in random encodings (definite/indefinite, widened heads, chunked strings, all float widths), every proper prefix of each, and byte-level mutants. A case is non-trivial when the input is longer than one byte; distinct = distinct input byte strings (hashed).",
  assumptions: &[
    "RFC 8949 well-formedness rules transcribed by hand into dv::model_decode",
    "an indefinite text string one of whose chunks ends inside a UTF-8 character must be refused: each chunk is a text string of its own (RFC 8949 3.2.3) and the property requires valid UTF-8 of text strings",
    "NaN payloads are not compared (any NaN equals any NaN)",
    "nesting beyond 2000 levels is not judged",
  ],
  required,
  post: Some(post),
  shards: default_shards,
};

const EXH: u64 = 257;
const STRUCT: u64 = 256;

fn cases(t: Tier) -> u64 {
  EXH
    + STRUCT
    + match t {
      Tier::Quick => 60_000,
      Tier::Thorough => 3_000_000,
    }
}

fn required(s: &Summary) -> Option<String> {
  if s.c("exhaustive_inputs") != 65_793 {
    return Some(format!(
      "exhaustive scope incomplete: {} of 65793 inputs",
      s.c("exhaustive_inputs")
    ));
  }
  if s.c("model_ok") < 1000 || s.c("model_err") < 1000 {
    return Some("too few accepted/rejected inputs".into());
  }
  None
}

pub fn conv(v: &Value) -> DV {
  match v {
    Value::Integer(i) => DV::Int(i128::from(*i)),
    Value::Bytes(b) => DV::Bytes(b.clone()),
    Value::Float(f) => DV::Float(*f),
    Value::Text(s) => DV::Text(s.clone()),
    Value::Bool(b) => DV::Bool(*b),
    Value::Null => DV::Null,
    Value::Tag(t, x) => DV::Tag(*t, Box::new(conv(x))),
    Value::Array(a) => DV::Array(a.iter().map(conv).collect()),
    Value::Map(m) => DV::Map(m.iter().map(|(k, v)| (conv(k), conv(v))).collect()),
    Value::Simple(n) => match n {
      20 => DV::Bool(false),
      21 => DV::Bool(true),
      22 => DV::Null,
      23 => DV::Undefined,
      n => DV::Simple(*n),
    },
  }
}

/// every difference between the model value and the implementation value, as classes
pub fn diffs(m: &DV, i: &DV, out: &mut Vec<String>) {
  if m == i {
    return;
  }
  let mut push = |s: String| {
    if !out.contains(&s) {
      out.push(s)
    }
  };
  match (m, i) {
    (DV::Array(a), DV::Array(b)) => {
      if a.len() != b.len() {
        push("array-length".into());
        return;
      }
      for (x, y) in a.iter().zip(b) {
        diffs(x, y, out);
      }
    }
    (DV::Map(a), DV::Map(b)) => {
      if a.len() != b.len() {
        push("map-length".into());
        return;
      }
      for ((k1, v1), (k2, v2)) in a.iter().zip(b) {
        diffs(k1, k2, out);
        diffs(v1, v2, out);
      }
    }
    (DV::Tag(t1, x), DV::Tag(t2, y)) => {
      if t1 != t2 {
        push("tag-number".into());
      }
      diffs(x, y, out);
    }
    (a, b) if a.kind() == b.kind() => push(format!("{}-value", a.kind())),
    (a, b) => push(format!("{}-as-{}", a.kind(), b.kind())),
  }
}

fn norm_panic(p: &str) -> String {
  // strip numbers so the signature is input independent
  let mut s = String::new();
  let mut last_digit = false;
  for c in p.chars() {
    if c.is_ascii_digit() {
      if !last_digit {
        s.push('N');
      }
      last_digit = true;
    } else {
      last_digit = false;
      s.push(c);
    }
  }
  s
}

pub fn check(ctx: &mut Ctx, bytes: &[u8], origin: &str) {
  ctx.eval();
  if bytes.len() > 1 {
    ctx.nontrivial(hash_bytes(bytes));
  }
  let m = model_decode(bytes);
  ctx.call("decode_cbor");
  let r = guard(|| decode_cbor(bytes));
  let witness = |exp: String, obs: String| {
    json!({"input_hex": dv::hex(bytes), "origin": origin, "model": exp, "observed": obs})
  };
  match (&m, &r) {
    (Ok(_), _) => ctx.count("model_ok"),
    (Err(_), _) => ctx.count("model_err"),
  }
  match r {
    Err(p) => {
      let sig = format!("panic:decode_cbor:{}", norm_panic(&p));
      let exp = match &m {
        Ok(d) => d.v.diag(),
        Err(e) => format!("{:?}", e),
      };
      ctx.report(&sig, witness(exp, p));
    }
    Ok(Ok(v)) => match m {
      Ok(d) if d.split_utf8 => {
        // every chunk is itself a text string (RFC 8949 3.2.3), and the property demands valid
        // UTF-8 of every text string: a chunk that ends inside a character must be refused
        ctx.report("accepts-ill-formed:chunk-splits-utf8-character", witness("Err (a chunk is not valid UTF-8 on its own)".into(), conv(&v).diag()));
      }
      Ok(d) => {
        let iv = conv(&v);
        let mut ds = vec![];
        diffs(&d.v, &iv, &mut ds);
        if !ds.is_empty() {
          for cls in ds {
            ctx.report(&format!("value:{}", cls), witness(d.v.diag(), iv.diag()));
          }
        } else {
          ctx.count("agree_ok");
          ctx.sample("accepted", 3, || witness(d.v.diag(), iv.diag()));
        }
      }
      Err(dv::Wf::TooDeep) => ctx.count("unspecified_depth"),
      Err(e) => {
        ctx.report(
          &format!("accepts-ill-formed:{:?}", e),
          witness(format!("{:?}", e), conv(&v).diag()),
        );
      }
    },
    Ok(Err(e)) => match m {
      Ok(d) if d.split_utf8 => {
        let _ = d;
        ctx.count("agree_err");
        ctx.count("split_utf8_chunk_rejected");
      }
      Ok(d) => {
        ctx.report(
          &format!("rejects-well-formed:{}", top_class(&d.v)),
          witness(d.v.diag(), format!("Err({})", e)),
        );
      }
      Err(we) => {
        ctx.count("agree_err");
        ctx.sample("rejected", 3, || witness(format!("{:?}", we), format!("Err({})", e)));
      }
    },
  }
}

fn top_class(v: &DV) -> String {
  match v {
    DV::Int(i) if *i < -(1i128 << 63) => "nint-below-i64".into(),
    DV::Int(i) if *i > i64::MAX as i128 => "uint-above-i64".into(),
    v => v.kind().into(),
  }
}

const ARG_BYTES: &[u8] = &[0x00, 0x01, 0x17, 0x18, 0x1f, 0x20, 0x7f, 0x80, 0xff];

fn structured(ctx: &mut Ctx, ib: u8) {
  let ai = ib & 0x1f;
  let nargs = match ai {
    24 => 1,
    25 => 2,
    26 => 4,
    27 => 8,
    _ => 0,
  };
  // argument patterns: all-same boundary byte, or small value in the last byte
  let mut argsets: Vec<Vec<u8>> = vec![];
  if nargs == 0 {
    argsets.push(vec![]);
  } else {
    for &b in ARG_BYTES {
      argsets.push(vec![b; nargs]);
      let mut v = vec![0u8; nargs];
      v[nargs - 1] = b;
      argsets.push(v);
      let mut v = vec![0u8; nargs];
      v[0] = b;
      argsets.push(v);
    }
  }
  let payloads: &[&[u8]] = &[
    &[],
    &[0x00],
    &[0xff],
    &[0x00, 0x00],
    &[0x61, 0x61],
    &[0x41, 0x00, 0xff],
    &[0x61, 0x61, 0xff],
    &[0x60, 0xff],
    &[0x40, 0xff],
    &[0x5f, 0xff, 0xff],
    &[0x7f, 0xff, 0xff],
    &[0x61, 0xc3, 0x61, 0xa9, 0xff],
    &[0x01, 0x02, 0xff],
    &[0x01, 0xff],
    &[0xf8, 0x10],
    &[0xf8, 0x20],
    &[0x1c],
    &[0x1f],
    &[0xc0, 0xff],
    &[0x80, 0xa0, 0xff],
    &[0xc3, 0x28],
  ];
  for a in &argsets {
    for p in payloads {
      let mut b = vec![ib];
      b.extend_from_slice(a);
      b.extend_from_slice(p);
      check(ctx, &b, "structured");
      ctx.count("structured_inputs");
    }
  }
}

fn mutate(rng: &mut Rng, b: &[u8]) -> Vec<u8> {
  let mut v = b.to_vec();
  match rng.below(7) {
    0 if !v.is_empty() => {
      let i = rng.usize(v.len());
      v[i] ^= 1 << rng.below(8);
    }
    1 if !v.is_empty() => {
      let i = rng.usize(v.len());
      v[i] = *rng.pick(&[0xffu8, 0x1f, 0x3f, 0x5f, 0x7f, 0x9f, 0xbf, 0xdf, 0xf8, 0x1c, 0xfc, 0x00]);
    }
    2 => {
      let i = rng.usize(v.len() + 1);
      v.insert(i, *rng.pick(&[0xffu8, 0x5f, 0x7f, 0x9f, 0xbf, 0x40, 0x60, 0xf7, 0xc0, 0x3b]));
    }
    3 if !v.is_empty() => {
      let i = rng.usize(v.len());
      v.remove(i);
    }
    4 if v.len() > 1 => {
      let i = rng.usize(v.len() - 1);
      v.swap(i, i + 1);
    }
    5 if !v.is_empty() => {
      // corrupt UTF-8 / announce a longer length
      let i = rng.usize(v.len());
      v[i] = v[i].wrapping_add(1);
    }
    _ => {
      // hostile head: huge announced length on a random major type
      let mt = rng.below(8) as u8;
      let mut h = vec![(mt << 5) | 27];
      let n: u64 = *rng.pick(&[
        1u64 << 32,
        1 << 40,
        1 << 56,
        (1 << 63) - 1,
        1 << 63,
        u64::MAX,
        u64::MAX / 16,
        u64::MAX / 32 + 1,
        0x10_0000_0000,
      ]);
      h.extend_from_slice(&n.to_be_bytes());
      let i = if rng.bool() { 0 } else { rng.usize(v.len() + 1) };
      if i == 0 {
        h.extend_from_slice(&v);
        v = h;
      } else {
        v.truncate(i);
        v.extend_from_slice(&h);
      }
    }
  }
  v
}

fn run(ctx: &mut Ctx, idx: u64) {
  if idx == 0 {
    check(ctx, &[], "exhaustive");
    ctx.count("exhaustive_inputs");
    for a in 0..=255u8 {
      check(ctx, &[a], "exhaustive");
      ctx.count("exhaustive_inputs");
    }
    return;
  }
  if idx < EXH {
    let a = (idx - 1) as u8;
    for b in 0..=255u8 {
      check(ctx, &[a, b], "exhaustive");
      ctx.count("exhaustive_inputs");
    }
    return;
  }
  if idx < EXH + STRUCT {
    structured(ctx, (idx - EXH) as u8);
    return;
  }
  // generated
  let mut rng = ctx.rng.clone();
  let depth = 1 + rng.usize(4);
  let v = dv::gen_value(&mut rng, depth, true);
  let o = dv::random_opts(&mut rng);
  let enc = dv::encode(&v, &o, &mut rng);
  // the model must decode our own encoding to the value we encoded: harness self-check
  match model_decode(&enc) {
    Ok(d) if d.v == v && d.used == enc.len() => {}
    other => {
      panic!(
        "harness self-check failed: encode/model_decode disagree on {} -> {} ({:?})",
        v.diag(),
        dv::hex(&enc),
        other.map(|d| d.v.diag())
      );
    }
  }
  ctx.count("generated_items");
  check(ctx, &enc, "generated");
  // with trailing garbage: still begins with a well-formed item
  if rng.chance(1, 4) {
    let mut t = enc.clone();
    t.push(rng.below(256) as u8);
    check(ctx, &t, "generated+trailing");
  }
  // every proper prefix (bounded)
  if enc.len() <= 48 {
    for n in 1..enc.len() {
      check(ctx, &enc[..n], "prefix");
      ctx.count("prefix_inputs");
    }
  } else {
    for _ in 0..24 {
      let n = 1 + rng.usize(enc.len() - 1);
      check(ctx, &enc[..n], "prefix");
      ctx.count("prefix_inputs");
    }
  }
  for _ in 0..12 {
    let mut m = mutate(&mut rng, &enc);
    if rng.chance(1, 5) {
      m = mutate(&mut rng, &m);
    }
    check(ctx, &m, "mutant");
    ctx.count("mutant_inputs");
  }
  // indefinite-length text strings whose chunk boundary falls inside / between characters
  for _ in 0..2 {
    let words = ["é", "aé", "😀", "x😀y", "ü€", "日本"];
    let t = rng.pick_str(&words).to_string() + rng.pick_str(&words);
    let b = t.as_bytes();
    let cut = 1 + rng.usize(b.len() - 1);
    let mut e = vec![0x7f];
    for part in [&b[..cut], &b[cut..]] {
      e.push(0x60 | part.len() as u8);
      e.extend_from_slice(part);
    }
    e.push(0xff);
    // possibly nested
    if rng.chance(1, 3) {
      let mut w = vec![0x81];
      w.extend(e);
      e = w;
    }
    check(ctx, &e, "chunked-text");
    ctx.count("chunked_text_inputs");
  }
}

/// thorough tier: the first 20000 cases again under AddressSanitizer, and 8 x 10 cases (spread over the case space) under Miri (see san.rs)
fn post(sum: &mut Summary, tier: Tier, seed: u64) {
  crate::san::asan_phase(&DEF, sum, tier, seed, 20_000);
  crate::san::miri_phase(&DEF, sum, tier, seed, 8, 10);
}
