//! C13 — CSV validation equals JSON validation of the draft's data-model mapping.

use crate::api::{self, V};
use crate::rng::{hash_str, Rng};
use crate::sup::{default_shards, Ctx, PropDef, Summary, Tier};
use serde_json::json;

pub static DEF: PropDef = PropDef {
  id: "C13",
  level: "exploration",
  cases,
  run,
  stack_mb: 64,
  case_cpu_s: 20.0,
  crash_is_event: false,
  rule: "CSV texts are built from a table of cells: each cell has a class (decimal integer, negative integer, integer beyond 64 bits, decimal fraction, exponent float, overflowing float 1e999, inf/NaN/infinity spellings, empty, plain text, text with comma / quote / CR LF / LF inside, numeric look-alikes +3 007 1. .5 0x10 ' 1' 1_0 -0 = unspecified) and is written RFC 4180 style (quoted when needed or at random, quotes doubled, CRLF or LF record ends, with or without a final line break, ragged rows). The reference reader R-csv (this file) maps the text to an array of arrays per draft-bormann-cbor-cddl-csv: header row (when flagged) stays text, every other field becomes a JSON number exactly when it is spelled as a JSON number with a finite value, text otherwise. For 14 CSV-shaped schemas (tables of scalars, per-column choices, .size, occurrence bounds on rows and fields, header + records) and header flag None/false/true: validate_csv_from_str succeeds <=> validate_json_from_str on the mapped document succeeds. Texts containing an unspecified cell are counted, not judged. Non-trivial = text with >= 2 records and >= 2 cell classes; distinct by (schema, text, flag).",
  assumptions: &[
    "the mapping is transcribed from draft-bormann-cbor-cddl-csv-08 as quoted in csv_validator.rs and the property text; number = RFC 8259 number grammar with a finite f64 value",
    "unspecified: leading '+', leading zeros, '1.', '.5', surrounding blanks, '-0', digit separators, hex, blank lines, quotes inside unquoted fields",
    "the JSON validator is the verdict oracle on both sides (as the property states), so its own defects cancel out",
  ],
  required,
  post: None,
  shards: default_shards,
};

fn cases(t: Tier) -> u64 {
  match t {
    Tier::Quick => 20_000,
    Tier::Thorough => 2_000_000,
  }
}

fn required(s: &Summary) -> Option<String> {
  if s.c("both_ok") < 2000 || s.c("both_err") < 2000 {
    return Some(format!("both ok {} both err {}", s.c("both_ok"), s.c("both_err")));
  }
  None
}

const SCHEMAS: &[&str] = &[
  "a = [* [tstr, uint]]\n",
  "a = [* [* (int / float / tstr)]]\n",
  "a = [? h, * r]\nh = [* tstr]\nr = [int, float, tstr]\n",
  "a = [* [tstr .size (1..5), number]]\n",
  "a = [2*2 [text, text]]\n",
  "a = [* [* any]]\n",
  "a = [+ [1*3 number]]\n",
  "a = [* [tstr, ? int]]\n",
  "a = [* [* tstr]]\n",
  "a = [* [int / tstr, float / tstr]]\n",
  "a = [* [uint, nint / tstr, * tstr]]\n",
  "a = [[tstr, tstr], * [number, number]]\n",
  "a = [* [tstr, tstr .size 0 / int]]\n",
  "a = [* [float, float]]\n",
];

#[derive(Clone, Debug)]
struct Cell {
  raw: String,
  class: &'static str,
  /// None = unspecified classification
  number: Option<bool>,
}

fn gen_cell(rng: &mut Rng) -> Cell {
  let c = |raw: String, class: &'static str, number: Option<bool>| Cell { raw, class, number };
  match rng.below(24) {
    0..=3 => c(rng.below(1000).to_string(), "int", Some(true)),
    4 => c(format!("-{}", 1 + rng.below(1000)), "neg-int", Some(true)),
    5 => c(rng.pick_str(&["18446744073709551615", "18446744073709551616", "-9223372036854775808", "-9223372036854775809", "99999999999999999999999"]).to_string(), "big-int", Some(true)),
    6 | 7 => c(format!("{}.{}", rng.below(100), 1 + rng.below(99)), "fraction", Some(true)),
    8 => c(format!("{}{}e{}{}", if rng.bool() { "-" } else { "" }, 1 + rng.below(9), rng.pick_str(&["", "+", "-"]), rng.below(20)), "exp-float", Some(true)),
    9 => c(format!("{}.5E{}", rng.below(10), rng.below(10)), "exp-float", Some(true)),
    10 => c(rng.pick_str(&["1e999", "-1e999", "1.5E+400"]).to_string(), "overflow-float", Some(false)),
    11 => c(rng.pick_str(&["inf", "-inf", "NaN", "nan", "infinity", "Infinity", "-Infinity", "+inf"]).to_string(), "non-finite-spelling", Some(false)),
    12 | 13 => c(String::new(), "empty", Some(false)),
    14..=16 => c(rng.pick_str(&["x", "abc", "é", "hello world", "a-b", "1a", "e5", "-", "--1", "1e", "1e+", "0x", "true", "null"]).to_string(), "text", Some(false)),
    17 => c(format!("a,{}", rng.below(10)), "text-comma", Some(false)),
    18 => c(format!("say \"{}\"", rng.below(10)), "text-quote", Some(false)),
    19 => c(format!("l1{}l2", if rng.bool() { "\r\n" } else { "\n" }), "text-newline", Some(false)),
    20 => c(rng.pick_str(&["+3", "007", "00", "1.", ".5", "-.5", "0x10", " 1", "1 ", "1_0", "-0", "-0.0", "1e5.0", "١٢"]).to_string(), "look-alike", None),
    21 => c("\"".into(), "text-quote", Some(false)),
    22 => c(",".into(), "text-comma", Some(false)),
    _ => c(format!("{}", rng.range(-5, 5)), "int", Some(true)),
  }
}

fn write_csv(rows: &[Vec<Cell>], rng: &mut Rng, crlf: bool, final_break: bool) -> String {
  let mut s = String::new();
  for (i, r) in rows.iter().enumerate() {
    for (j, c) in r.iter().enumerate() {
      if j > 0 {
        s.push(',');
      }
      let must = c.raw.contains(',') || c.raw.contains('"') || c.raw.contains('\n') || c.raw.contains('\r');
      // a lone empty field on a line would be a blank line: quote it
      let lone_empty = r.len() == 1 && c.raw.is_empty();
      if must || lone_empty || rng.chance(1, 8) {
        s.push('"');
        s.push_str(&c.raw.replace('"', "\"\""));
        s.push('"');
      } else {
        s.push_str(&c.raw);
      }
    }
    if i + 1 < rows.len() || final_break {
      s.push_str(if crlf { "\r\n" } else { "\n" });
    }
  }
  s
}

/// R-csv: RFC 4180 reader. Returns records of fields, or None for texts outside the decided grammar
/// (quote inside an unquoted field, text after a closing quote, lone CR, blank line).
fn read_csv(t: &str) -> Option<Vec<Vec<String>>> {
  let b: Vec<char> = t.chars().collect();
  let mut i = 0;
  let mut rows: Vec<Vec<String>> = vec![];
  let mut row: Vec<String> = vec![];
  if b.is_empty() {
    return Some(rows);
  }
  loop {
    // one field
    let mut f = String::new();
    if i < b.len() && b[i] == '"' {
      i += 1;
      loop {
        if i >= b.len() {
          return None; // unterminated
        }
        if b[i] == '"' {
          if i + 1 < b.len() && b[i + 1] == '"' {
            f.push('"');
            i += 2;
          } else {
            i += 1;
            break;
          }
        } else {
          f.push(b[i]);
          i += 1;
        }
      }
      if i < b.len() && !(b[i] == ',' || b[i] == '\n' || b[i] == '\r') {
        return None;
      }
    } else {
      while i < b.len() && b[i] != ',' && b[i] != '\n' && b[i] != '\r' {
        if b[i] == '"' {
          return None;
        }
        f.push(b[i]);
        i += 1;
      }
    }
    row.push(f);
    if i >= b.len() {
      rows.push(row);
      return Some(rows);
    }
    match b[i] {
      ',' => {
        i += 1;
        if i >= b.len() {
          // trailing comma at end of input: an empty last field
          row.push(String::new());
          rows.push(row);
          return Some(rows);
        }
      }
      '\r' => {
        if i + 1 < b.len() && b[i + 1] == '\n' {
          i += 2;
        } else {
          return None;
        }
        rows.push(std::mem::take(&mut row));
        if i >= b.len() {
          return Some(rows);
        }
        if b[i] == '\n' || b[i] == '\r' {
          return None; // blank line
        }
      }
      _ => {
        i += 1;
        rows.push(std::mem::take(&mut row));
        if i >= b.len() {
          return Some(rows);
        }
        if b[i] == '\n' || b[i] == '\r' {
          return None;
        }
      }
    }
  }
}

/// Some(true) = JSON number with finite value, Some(false) = text, None = unspecified
fn classify(f: &str) -> Option<bool> {
  if f.is_empty() {
    return Some(false);
  }
  let b = f.as_bytes();
  let mut i = 0;
  let neg = b[0] == b'-';
  if neg {
    i += 1;
  }
  let digits = |i: &mut usize| {
    let s = *i;
    while *i < b.len() && b[*i].is_ascii_digit() {
      *i += 1;
    }
    *i - s
  };
  let int_start = i;
  let n = digits(&mut i);
  let mut json_num = n > 0 && !(n > 1 && b[int_start] == b'0');
  if json_num && i < b.len() && b[i] == b'.' {
    i += 1;
    if digits(&mut i) == 0 {
      json_num = false;
    }
  }
  if json_num && i < b.len() && (b[i] == b'e' || b[i] == b'E') {
    i += 1;
    if i < b.len() && (b[i] == b'+' || b[i] == b'-') {
      i += 1;
    }
    if digits(&mut i) == 0 {
      json_num = false;
    }
  }
  if json_num && i == b.len() {
    if f == "-0" || f.starts_with("-0.") && f.trim_start_matches("-0.").chars().all(|c| c == '0') {
      return None; // negative zero: integer or float is not decided
    }
    return match f.parse::<f64>() {
      Ok(v) if v.is_finite() => Some(true),
      _ => Some(false),
    };
  }
  // not a JSON number: is it a look-alike that some decimal grammar would take?
  let t = f.trim();
  let looks = t != f
    || t.parse::<f64>().map(|v| v.is_finite()).unwrap_or(false)
    || t.trim_start_matches('+').parse::<f64>().map(|v| v.is_finite()).unwrap_or(false)
    || t.starts_with("0x")
    || t.starts_with("0X")
    || t.replace('_', "").parse::<f64>().is_ok() && t.contains('_')
    || (!t.is_ascii() && t.chars().all(|c| c.is_numeric()));
  if looks {
    None
  } else {
    Some(false)
  }
}

fn mapped_json(rows: &[Vec<String>], header: bool) -> Option<String> {
  let mut out = String::from("[");
  for (ri, r) in rows.iter().enumerate() {
    if ri > 0 {
      out.push(',');
    }
    out.push('[');
    for (fi, f) in r.iter().enumerate() {
      if fi > 0 {
        out.push(',');
      }
      let as_text = |out: &mut String| crate::dv::json_string(f, out);
      if header && ri == 0 {
        as_text(&mut out);
      } else {
        match classify(f)? {
          true => out.push_str(f),
          false => as_text(&mut out),
        }
      }
    }
    out.push(']');
  }
  out.push(']');
  Some(out)
}

fn verdicts(schema: &str, csv: &str, header: Option<bool>) -> Option<(bool, bool, String)> {
  let rows = read_csv(csv)?;
  let doc = mapped_json(&rows, header.unwrap_or(false))?;
  let c = match api::vcsv(schema, csv, header, None) {
    Ok(V::Ok) => true,
    Ok(V::Invalid(_)) => false,
    _ => return None,
  };
  let j = match api::vjson(schema, &doc, None) {
    Ok(V::Ok) => true,
    Ok(V::Invalid(_)) => false,
    _ => return None,
  };
  Some((c, j, doc))
}

fn run(ctx: &mut Ctx, _idx: u64) {
  let mut rng = ctx.rng.clone();
  let schema = *rng.pick(SCHEMAS);
  let nrows = rng.usize(5);
  let width = 1 + rng.usize(3);
  let ragged = rng.chance(1, 5);
  let mut rows: Vec<Vec<Cell>> = vec![];
  for _ in 0..nrows {
    let w = if ragged { 1 + rng.usize(4) } else { width };
    rows.push((0..w).map(|_| gen_cell(&mut rng)).collect());
  }
  let crlf = rng.bool();
  let final_break = rng.chance(3, 4);
  let csv = write_csv(&rows, &mut rng, crlf, final_break);
  let header = *rng.pick(&[None, Some(false), Some(true)]);
  ctx.eval();
  let classes: std::collections::BTreeSet<&str> = rows.iter().flatten().map(|c| c.class).collect();
  for c in &classes {
    ctx.count(&format!("cell:{}", c));
  }
  let unspecified_cell = rows.iter().enumerate().any(|(ri, r)| r.iter().any(|c| c.number.is_none() && !(header == Some(true) && ri == 0)));
  // harness self-check: the reader must give back the cells that were written
  match read_csv(&csv) {
    Some(r) => {
      let want: Vec<Vec<String>> = rows.iter().map(|r| r.iter().map(|c| c.raw.clone()).collect()).collect();
      if r != want {
        ctx.sum.inconclusive.push(format!("HARNESS R-csv does not read back what the writer wrote: {:?}", csv));
        return;
      }
    }
    None => {
      ctx.count("unspecified_text_skipped");
      return;
    }
  }
  if unspecified_cell {
    ctx.count("unspecified_cell_skipped");
    // still executed for C05-style robustness, not judged
    let _ = api::vcsv(schema, &csv, header, None);
    return;
  }
  let (c, j, doc) = match verdicts(schema, &csv, header) {
    Some(x) => x,
    None => {
      ctx.count("no_verdict_skipped");
      return;
    }
  };
  if rows.len() >= 2 && classes.len() >= 2 {
    ctx.nontrivial(hash_str(&format!("{}\u{0}{}\u{0}{:?}", schema, csv, header)));
  }
  if c == j {
    ctx.count(if c { "both_ok" } else { "both_err" });
    ctx.sample(if c { "both-ok" } else { "both-err" }, 2, || json!({"schema": schema, "csv": csv, "header": header, "mapped_json": doc, "verdict": c}));
    return;
  }
  // shrink: drop rows, then cells, while the split persists
  let dir = if c { "csv-ok-json-err" } else { "csv-err-json-ok" };
  let mut cur = rows.clone();
  let split = |rs: &Vec<Vec<Cell>>| -> bool {
    let mut r0 = Rng::new(0);
    let t = write_csv(rs, &mut r0, false, true);
    matches!(verdicts(schema, &t, header), Some((a, b, _)) if a == c && b == j)
  };
  if split(&cur) {
    let mut progress = true;
    while progress {
      progress = false;
      for i in 0..cur.len() {
        let mut t = cur.clone();
        t.remove(i);
        if split(&t) {
          cur = t;
          progress = true;
          break;
        }
      }
      if progress {
        continue;
      }
      'cells: for i in 0..cur.len() {
        for k in 0..cur[i].len() {
          if cur[i].len() > 1 {
            let mut t = cur.clone();
            t[i].remove(k);
            if split(&t) {
              cur = t;
              progress = true;
              break 'cells;
            }
          }
          if cur[i][k].class != "int" {
            let mut t = cur.clone();
            t[i][k] = Cell { raw: "1".into(), class: "int", number: Some(true) };
            if split(&t) {
              cur = t;
              progress = true;
              break 'cells;
            }
          }
        }
      }
    }
  }
  let cls: std::collections::BTreeSet<&str> = cur.iter().flatten().map(|c| c.class).collect();
  let sig = format!("{}:{}{}", dir, cls.into_iter().collect::<Vec<_>>().join(","), if header == Some(true) { ",header" } else { "" });
  let mut r0 = Rng::new(0);
  let small = write_csv(&cur, &mut r0, false, true);
  ctx.report(&sig, json!({"schema": schema, "csv": csv, "header": header, "mapped_json": doc, "csv_verdict": c, "json_verdict": j, "shrunk_csv": small, "shrunk_json": small}));
}
