//! C19 — optional cargo features are orthogonal.
//!
//! One case = one feature set (bit mask over the 8 documented features, always with std):
//!  (a) build monitor: `cargo check --lib --no-default-features --features std,<set>` on
//!      /repo's working tree; every compiler error is an event, keyed by error code, file and
//!      the identifiers it names, tagged with the +/- feature literals of the set;
//!  (b) behaviour monitor: for sets that build, a driver crate (c19drv) is built against the
//!      set and run on a generated workload; its result records (acceptance, Display text,
//!      Debug AST, JSON/CBOR/CSV verdicts) are compared with the records this harness (all
//!      features) computes with the same shared code (c19drv/src/ops.rs).

use crate::dv;
use crate::gs::{self, Profile};
use crate::props::c01::{gen_docs, gen_schema};
use crate::rng::{hash_str, Rng};
use crate::sup::{Ctx, PropDef, Summary, Tier, VERIF};
use crate::synx::{self, Mode};
use serde_json::{json, Value};
use std::collections::BTreeSet;
use std::process::{Command, Stdio};

pub const F: [&str; 8] = ["ast-span", "ast-comments", "ast-parent", "json", "cbor", "csv-validate", "additional-controls", "freezer"];
const SHARDS: usize = 8;

pub static DEF: PropDef = PropDef {
  id: "C19",
  level: "exploration",
  cases,
  run,
  stack_mb: 256,
  case_cpu_s: 600.0,
  crash_is_event: false,
  rule: "One case per feature set (quick: the full set, the 8 all-but-one sets, the 8 single-feature sets, the empty set and 14 seeded random sets; thorough: all 256). (a) cargo check of the library with exactly that set: each compiler error is reported with code, file, named identifiers and the +/- literals of the set. (b) If the set builds (quick: the 8 all-but-one sets; thorough: those plus every fourth set, rotated by the seed), the driver crate c19drv is built against it and run on a generated workload (schemas of the shared/core/syntax profiles with and without comments, templates for every additional and freezer control, .feature with feature lists, CSV); per item the driver's record must equal the record computed in-process with all features: parser acceptance; Display text (exactly; modulo comments and white space when the set lacks ast-comments and the schema has comments); Debug AST after removing span fields and empty comment fields; JSON / CBOR / CSV verdict class and error count where the set provides the validator. Items using a control operator the set does not provide are skipped (additional-controls, freezer incl. .pcre verdicts). Non-trivial = feature set for which the build result was observed; behaviour comparisons are counted per operation.",
  assumptions: &[
    "feature sets always include std (the property's 'with std')",
    "the reference is this harness linked against /repo with default features; the driver for the full set is compared against it as a self-check (a difference there is a harness fault, reported as inconclusive)",
    "rustc stops at the first failing phase, so a set that does not build can hide further errors of the same set",
  ],
  required,
  post: None,
  shards: |_| SHARDS,
};

fn cases(t: Tier) -> u64 {
  match t {
    Tier::Quick => 32,
    Tier::Thorough => 256,
  }
}

fn required(s: &Summary) -> Option<String> {
  if s.c("feature_sets_checked") < 32 {
    return Some(format!("feature sets checked {}", s.c("feature_sets_checked")));
  }
  if s.c("driver_runs") < 3 || s.c("compared:parse") < 200 {
    return Some(format!("driver runs {} parse comparisons {}", s.c("driver_runs"), s.c("compared:parse")));
  }
  None
}

fn mask_of_case(seed: u64, tier: Tier, idx: u64) -> u32 {
  if tier == Tier::Thorough {
    return idx as u32;
  }
  let mut v: Vec<u32> = vec![255];
  for i in 0..8 {
    v.push(255 & !(1 << i));
  }
  for i in 0..8 {
    v.push(1 << i);
  }
  v.push(0);
  let mut r = Rng::new(seed ^ 0xC19);
  while v.len() < 32 {
    let m = r.below(256) as u32;
    if !v.contains(&m) {
      v.push(m);
    }
  }
  v[idx as usize % v.len()]
}

fn has(mask: u32, f: &str) -> bool {
  F.iter().position(|x| *x == f).map(|i| mask >> i & 1 == 1).unwrap_or(false)
}

fn feature_arg(mask: u32) -> String {
  let mut v = vec!["std"];
  for (i, f) in F.iter().enumerate() {
    if mask >> i & 1 == 1 {
      v.push(f);
    }
  }
  v.join(",")
}

fn literals(mask: u32) -> String {
  F.iter().enumerate().map(|(i, f)| format!("{}{}", if mask >> i & 1 == 1 { '+' } else { '-' }, f)).collect::<Vec<_>>().join(",")
}

fn clean(s: &str) -> String {
  s.chars().map(|c| if c == ':' { '.' } else if c == ',' { ';' } else { c }).collect()
}

/// identifiers between back-ticks of a rustc message (what the error is about)
fn named(msg: &str) -> String {
  let parts: Vec<&str> = msg.split('`').collect();
  let mut v = vec![];
  let mut i = 1;
  while i < parts.len() {
    v.push(parts[i].to_string());
    i += 2;
  }
  if v.is_empty() {
    msg.split_whitespace().take(8).collect::<Vec<_>>().join("_")
  } else {
    v.join("|")
  }
}

/// (ok, errors as (code, file, message)), None = cargo could not be run
fn cargo_check(mask: u32, slot: usize) -> Option<(bool, BTreeSet<(String, String, String)>, String)> {
  let out = Command::new("cargo")
    .current_dir("/repo")
    .env("CARGO_NET_OFFLINE", "true")
    .env("CARGO_BUILD_JOBS", "4")
    .args(["check", "--offline", "--lib", "--no-default-features", "--features", &feature_arg(mask), "--message-format=json"])
    .arg("--target-dir")
    .arg(format!("{}/target/c19/t{}", VERIF, slot))
    .stdin(Stdio::null())
    .output()
    .ok()?;
  let mut errs = BTreeSet::new();
  for l in String::from_utf8_lossy(&out.stdout).lines() {
    if let Ok(m) = serde_json::from_str::<Value>(l) {
      if m["reason"] == "compiler-message" && m["message"]["level"] == "error" {
        let mm = &m["message"];
        let code = mm["code"]["code"].as_str().unwrap_or("-").to_string();
        let file = mm["spans"].as_array().and_then(|a| a.iter().find(|s| s["is_primary"] == true)).and_then(|s| s["file_name"].as_str()).unwrap_or("-").to_string();
        let msg = mm["message"].as_str().unwrap_or("").to_string();
        if msg.starts_with("aborting due to") || msg.starts_with("could not compile") {
          continue;
        }
        errs.insert((code, file, msg));
      }
    }
  }
  let stderr = String::from_utf8_lossy(&out.stderr).to_string();
  Some((out.status.success(), errs, stderr))
}

struct Item {
  v: Value,
  needs_ac: bool,
  needs_fz: bool,
  /// uses the .json control, which validates the embedded text with the JSON validator (feature json)
  needs_json: bool,
  pcre: bool,
  comments: bool,
  /// index of the comment-free rendering of the same schema
  twin: Option<usize>,
  kind: &'static str,
}

const CORE_CTL: &[&str] = &["size", "bits", "regexp", "cbor", "cborseq", "within", "and", "lt", "le", "gt", "ge", "eq", "ne", "default", "pcre"];
const FZ_CTL: &[&str] = &["iregexp", "bitfield"];

fn uses_json_ctl(tags: &BTreeSet<String>) -> bool {
  tags.contains("ctl.json")
}

fn classify_ctl(tags: &BTreeSet<String>) -> (bool, bool, bool) {
  let (mut ac, mut fz, mut pcre) = (false, false, false);
  for t in tags {
    if let Some(c) = t.strip_prefix("ctl.") {
      if c == "pcre" {
        pcre = true;
      }
      if FZ_CTL.contains(&c) {
        fz = true;
      } else if !CORE_CTL.contains(&c) {
        ac = true;
      }
    }
  }
  (ac, fz, pcre)
}

fn hexs(b: &[u8]) -> String {
  b.iter().map(|x| format!("{:02x}", x)).collect()
}

/// (schema, json docs, features, needs additional-controls, needs freezer, uses .pcre)
const TEMPLATES: &[(&str, &[&str], &[&str], bool, bool, bool)] = &[
  ("a = \"foo\" .cat \"bar\"\n", &["\"foobar\"", "\"foo\""], &[], true, false, false),
  ("a = \"foo\" .cat b\nb = \"bar\" / \"baz\"\n", &["\"foobaz\"", "\"foo\""], &[], true, false, false),
  ("a = (\"x\" / \"y\") .cat \"z\"\n", &["\"xz\"", "\"z\""], &[], true, false, false),
  ("a = \"l1\n  l2\" .det \"\n  l3\"\n", &["\"l1\\nl2\\nl3\"", "\"l1\""], &[], true, false, false),
  ("a = 1 .plus 2\n", &["3", "2"], &[], true, false, false),
  ("a = [ 1 .plus b, b ]\nb = 4\n", &["[5,4]", "[4,4]"], &[], true, false, false),
  ("a = tstr .abnf \"r = 1*DIGIT\"\n", &["\"123\"", "\"x\""], &[], true, false, false),
  ("a = { v: int .feature \"f1\", ? w: tstr .feature \"f2\" }\n", &["{\"v\":1}", "{\"v\":1,\"w\":\"x\"}", "{\"v\":\"x\"}"], &["f1"], true, false, false),
  ("a = J<\"v\", 2>\nJ<X, Y> = X .feature \"json\" / Y .feature \"cbor\"\n", &["\"v\"", "2", "3"], &["json"], true, false, false),
  ("a = J<\"v\", 2>\nJ<X, Y> = X .feature \"json\" / Y .feature \"cbor\"\n", &["\"v\"", "2", "3"], &["cbor", "json"], true, false, false),
  ("a = tstr .b64u bstr\n", &["\"AQID\"", "\"*\""], &[], true, false, false),
  ("a = tstr .hex bstr\n", &["\"0102\"", "\"zz\""], &[], true, false, false),
  ("a = tstr .base10 uint\n", &["\"123\"", "\"01\"", "\"x\""], &[], true, false, false),
  ("a = tstr .printf ([\"%d-%s\", 1, \"x\"])\n", &["\"1-x\"", "\"2-x\""], &[], true, false, false),
  ("a = tstr .json ({ a: int })\n", &["\"{\\\"a\\\":1}\"", "\"{}\""], &[], true, false, false),
  ("a = tstr .join ([\"a\", \"b\"])\n", &["\"ab\"", "\"a\""], &[], true, false, false),
  ("a = tstr .pcre \"[a-c]+\"\n", &["\"abc\"", "\"abd\"", "1"], &[], false, false, true),
  ("a = tstr .pcre \"a(?=b)b\"\n", &["\"ab\"", "\"a\""], &[], false, false, true),
  ("a = tstr .iregexp \"[a-c]+\"\n", &["\"abc\"", "\"abd\""], &[], false, true, false),
  ("a = uint .bitfield ([ f1: 2, f2: 3 ])\n", &["3", "255"], &[], false, true, false),
  ("a = tstr .regexp \"[a-c]+\"\n", &["\"abc\"", "\"abd\""], &[], false, false, false),
  ("a = tstr .size (2..4)\n", &["\"abc\"", "\"a\""], &[], false, false, false),
  ("a = uint .bits b\nb = &( x: 0, y: 2 )\n", &["5", "2"], &[], false, false, false),
  ("a = int .default 3\n", &["3", "4", "\"x\""], &[], false, false, false),
  ("a = { ? k: int .default 3 }\n", &["{}", "{\"k\":1}", "{\"k\":\"x\"}"], &[], false, false, false),
  ("a = (int / tstr) .within any\n", &["1", "\"x\"", "null"], &[], false, false, false),
  ("a = int .ne 3\n", &["3", "4"], &[], false, false, false),
  ("a = { k: int .ne 3 }\n", &["{\"k\":3}", "{\"k\":4}", "{}"], &[], false, false, false),
  ("a = { * tstr => int }\n", &["{}", "{\"x\":1}", "{\"x\":\"y\"}"], &[], false, false, false),
  ("a = [ * b ]\nb = ( tstr, ? int )\n", &["[]", "[\"x\",1,\"y\"]", "[1]"], &[], false, false, false),
];

const CSVS: &[(&str, &[(&str, Option<bool>)])] = &[
  ("doc = [ * [ tstr, int ] ]\n", &[("a,1\nb,2\n", None), ("a,x\n", None), ("n,c\na,1\n", Some(true)), ("n,c\na,1\n", Some(false))]),
  ("doc = [ [ tstr, tstr ], * [ tstr, int ] ]\n", &[("n,c\na,1\n", None), ("a,1\n", None)]),
];

fn workload(rng: &mut Rng, n: usize) -> Vec<Item> {
  let mut out = vec![];
  for (s, docs, feats, ac, fz, pcre) in TEMPLATES {
    let cb: Vec<String> = docs.iter().filter_map(|d| serde_json::from_str::<Value>(d).ok()).map(|v| from_json(&v)).map(|v| hexs(&dv::encode(&v, &dv::CANON, &mut Rng::new(0)))).collect();
    out.push(Item { v: json!({"schema": s, "json": docs, "cbor": cb, "csv": [], "features": feats}), needs_ac: *ac, needs_fz: *fz, needs_json: s.contains(".json"), pcre: *pcre, comments: false, twin: None, kind: "template" });
  }
  for (s, docs) in CSVS {
    let c: Vec<Value> = docs.iter().map(|(t, h)| json!({"text": t, "header": h})).collect();
    out.push(Item { v: json!({"schema": s, "json": [], "cbor": [], "csv": c, "features": []}), needs_ac: false, needs_fz: false, needs_json: false, pcre: false, comments: false, twin: None, kind: "csv" });
  }
  while out.len() < n {
    let k = rng.below(10);
    if k < 4 {
      let g = gen_schema(rng, Profile::shared());
      let (ac, fz, pcre) = classify_ctl(&gs::tags(&g));
      let docs = gen_docs(&g, rng, true, 6);
      let js: Vec<String> = docs.iter().map(|(v, _)| v.to_json()).collect();
      let cb: Vec<String> = docs.iter().map(|(v, _)| hexs(&dv::encode(v, &dv::CANON, &mut Rng::new(0)))).collect();
      out.push(Item { v: json!({"schema": gs::print_plain(&g), "json": js, "cbor": cb, "csv": [], "features": []}), needs_ac: ac, needs_fz: fz, needs_json: false, pcre, comments: false, twin: None, kind: "shared" });
    } else if k < 6 {
      let g = gen_schema(rng, Profile::core(true));
      let (ac, fz, pcre) = classify_ctl(&gs::tags(&g));
      let docs = gen_docs(&g, rng, false, 6);
      let mut r2 = Rng::new(rng.next_u64());
      let cb: Vec<String> = docs.iter().map(|(v, _)| { let o = dv::random_opts(&mut r2); hexs(&dv::encode(v, &o, &mut r2)) }).collect();
      out.push(Item { v: json!({"schema": gs::print_plain(&g), "json": [], "cbor": cb, "csv": [], "features": []}), needs_ac: ac, needs_fz: fz, needs_json: false, pcre, comments: false, twin: None, kind: "core-cbor" });
    } else {
      let mut g = gs::Gen::new(rng, Profile::syntax());
      let g = g.schema();
      let (ac, fz, pcre) = classify_ctl(&gs::tags(&g));
      let comments = k >= 8;
      let seed = rng.next_u64();
      let text = if comments { synx::render(&g, &Mode::Comments(seed)) } else if k == 7 { synx::render(&g, &Mode::Spell(seed)) } else { synx::render(&g, &Mode::Plain) };
      let has_c = comments && text_has_comment(&text);
      let twin = if has_c {
        out.push(Item { v: json!({"schema": synx::render(&g, &Mode::Plain), "json": [], "cbor": [], "csv": [], "features": []}), needs_ac: ac, needs_fz: fz, needs_json: uses_json_ctl(&gs::tags(&g)), pcre, comments: false, twin: None, kind: "syntax" });
        Some(out.len() - 1)
      } else {
        None
      };
      out.push(Item { v: json!({"schema": text, "json": [], "cbor": [], "csv": [], "features": []}), needs_ac: ac, needs_fz: fz, needs_json: uses_json_ctl(&gs::tags(&g)), pcre, comments: has_c, twin, kind: if comments { "syntax-comments" } else { "syntax" } });
    }
  }
  out
}

fn from_json(v: &Value) -> dv::DV {
  use dv::DV;
  match v {
    Value::Null => DV::Null,
    Value::Bool(b) => DV::Bool(*b),
    Value::Number(n) => match n.as_i64() {
      Some(i) => DV::Int(i as i128),
      None => DV::Float(n.as_f64().unwrap_or(0.5)),
    },
    Value::String(s) => DV::Text(s.clone()),
    Value::Array(a) => DV::Array(a.iter().map(from_json).collect()),
    Value::Object(o) => DV::Map(o.iter().map(|(k, x)| (DV::Text(k.clone()), from_json(x))).collect()),
  }
}

fn text_has_comment(t: &str) -> bool {
  strip_ws_comments(t).1
}

/// remove comments and white space outside text / byte-string literals; .1 = a comment was seen
fn strip_ws_comments(t: &str) -> (String, bool) {
  let cs: Vec<char> = t.chars().collect();
  let mut o = String::new();
  let mut seen = false;
  let mut i = 0;
  while i < cs.len() {
    let c = cs[i];
    if c == '"' {
      o.push(c);
      i += 1;
      while i < cs.len() {
        o.push(cs[i]);
        if cs[i] == '\\' && i + 1 < cs.len() {
          o.push(cs[i + 1]);
          i += 2;
          continue;
        }
        if cs[i] == '"' {
          break;
        }
        i += 1;
      }
      i += 1;
    } else if c == '\'' {
      o.push(c);
      i += 1;
      while i < cs.len() {
        o.push(cs[i]);
        if cs[i] == '\\' && i + 1 < cs.len() {
          o.push(cs[i + 1]);
          i += 2;
          continue;
        }
        if cs[i] == '\'' {
          break;
        }
        i += 1;
      }
      i += 1;
    } else if c == ';' {
      seen = true;
      while i < cs.len() && cs[i] != '\n' {
        i += 1;
      }
    } else if c.is_whitespace() {
      i += 1;
    } else {
      o.push(c);
      i += 1;
    }
  }
  (o, seen)
}

/// Debug AST with span fields and absent-comment fields removed (then white space, commas, empty braces)
fn norm_ast(a: &str) -> String {
  thread_local! {
    static RE: (regex::Regex, regex::Regex) = (
      regex::Regex::new(r"span: \(\d+, \d+, \d+\)").unwrap(),
      regex::Regex::new(r"\b\w*comments\w*: None").unwrap(),
    );
  }
  RE.with(|(r1, r2)| {
    let s = r1.replace_all(a, "");
    let s = r2.replace_all(&s, "");
    let s: String = s.chars().filter(|c| *c != ' ' && *c != ',').collect();
    s.replace("{}", "")
  })
}

fn run(ctx: &mut Ctx, idx: u64) {
  let mask = mask_of_case(ctx.seed, ctx.tier, idx);
  let slot = idx as usize % SHARDS;
  ctx.eval();
  let lits = literals(mask);
  let (ok, errs, stderr) = match cargo_check(mask, slot) {
    Some(x) => x,
    None => {
      ctx.sum.inconclusive.push("HARNESS cargo could not be started".into());
      return;
    }
  };
  ctx.count("feature_sets_checked");
  ctx.nontrivial(mask as u64);
  if ctx.tier == Tier::Thorough {
    prune(&format!("{}/target/c19/t{}", VERIF, slot));
  }
  if ok {
    ctx.count("feature_sets_build");
    ctx.sample("builds", 40, || json!({"features": feature_arg(mask)}));
  } else {
    ctx.count("feature_sets_do_not_build");
    if errs.is_empty() {
      // cargo-level failure (manifest / resolution): first error line of stderr
      let line = stderr.lines().find(|l| l.starts_with("error")).unwrap_or("error: unknown").to_string();
      ctx.report(&format!("build|cargo|{}:{}", clean(&line), lits), json!({"features": feature_arg(mask), "stderr": stderr.chars().take(2000).collect::<String>()}));
    }
    for (code, file, msg) in &errs {
      ctx.count("compiler_errors_observed");
      ctx.report(&format!("build|{}|{}|{}:{}", code, clean(file), clean(&named(msg)), lits), json!({"features": feature_arg(mask), "code": code, "file": file, "message": msg}));
    }
    return;
  }
  // behaviour half
  let structured = mask == 255 || (0..8).any(|i| mask == 255 & !(1 << i));
  // behaviour half: quick = the all-but-one sets; thorough = those plus every fourth set (rotated by the seed)
  let selected = match ctx.tier {
    Tier::Quick => structured,
    Tier::Thorough => structured || (mask as u64 + ctx.seed) % 4 == 0,
  };
  if !selected {
    ctx.count("driver_not_run_for_this_set");
    return;
  }
  let tdir = format!("{}/target/c19/d{}", VERIF, slot);
  // reference = the same driver built with all features (what "the operation with every feature" does)
  // (one shared build directory, serialised by a file lock: the workers would otherwise build it 8 times)
  let refdir = format!("{}/target/c19/dref", VERIF);
  let refbin = format!("{}/c19drv-ref-{}", refdir, std::process::id());
  if let Err(e) = build_driver(255, &refdir, &refbin) {
    ctx.sum.inconclusive.push(format!("HARNESS the reference driver (all features) does not build: {}", e.chars().take(300).collect::<String>()));
    return;
  }
  if mask == 255 {
    let _ = std::fs::remove_file(&refbin);
    return;
  }
  let bin = format!("{}/c19drv-set", tdir);
  if let Err(err) = build_driver(mask, &tdir, &bin) {
    let first = err.lines().find(|l| l.starts_with("error")).unwrap_or("error").to_string();
    // the library checks but the public API the driver uses is not there / does not build
    ctx.report(&format!("build|driver|{}:{}", clean(&named(&first)), lits), json!({"features": feature_arg(mask), "stderr_tail": err.chars().rev().take(3000).collect::<String>().chars().rev().collect::<String>()}));
    return;
  }
  let mut rng = Rng::new(ctx.seed ^ (mask as u64).wrapping_mul(0x9E37_79B9_7F4A_7C15));
  let n = if ctx.tier == Tier::Quick { 160 } else { 300 };
  let items = workload(&mut rng, n);
  if ctx.tier == Tier::Thorough {
    prune(&tdir);
  }
  let want = run_driver(&refbin, &items, mask, "ref");
  let got = run_driver(&bin, &items, mask, "set");
  let _ = std::fs::remove_file(&refbin);
  ctx.count("driver_runs");
  ctx.sample("driver-run", 12, || json!({"features": feature_arg(mask), "items": items.len(), "reference_records": want.iter().filter(|x| x.is_some()).count(), "set_records": got.iter().filter(|x| x.is_some()).count()}));
  for (k, it) in items.iter().enumerate() {
    ctx.count(&format!("items:{}", it.kind));
    if (it.needs_ac && !has(mask, "additional-controls")) || (it.needs_fz && !has(mask, "freezer")) || (it.needs_json && !has(mask, "json")) {
      ctx.count("items_skipped_functionality_absent");
      continue;
    }
    let report = |ctx: &mut Ctx, op: &str, a: &Value, b: &Value| {
      ctx.report(&format!("differs-{}:{},item.{}", op, lits, it.kind), json!({"features": feature_arg(mask), "schema": it.v["schema"], "item": it.v, "operation": op, "with_all_features": a, "with_this_set": b}));
    };
    let (w, g) = match (&want[k], &got[k]) {
      (Some(w), Some(g)) if w["stack_overflow"] == true || g["stack_overflow"] == true => {
        ctx.count("items_stack_overflow_in_a_driver_left_to_C05");
        continue;
      }
      (Some(w), Some(g)) if w["timed_out"] == true || g["timed_out"] == true => {
        // a wall-clock event is never a verdict
        ctx.count("items_timed_out_in_a_driver_skipped");
        continue;
      }
      (Some(w), Some(g)) => (w, g),
      (None, None) => {
        ctx.count("items_both_drivers_died");
        continue;
      }
      (a, b) => {
        ctx.count("compared:survival");
        report(ctx, "driver-died", &json!(a.is_some()), &json!(b.is_some()));
        continue;
      }
    };
    let mut cmp = |ctx: &mut Ctx, op: &str, a: &Value, b: &Value| {
      ctx.count(&format!("compared:{}", op));
      if a != b {
        report(ctx, op, a, b);
      }
    };
    cmp(ctx, "parse", &w["parse"], &g["parse"]);
    if w["parse"] == "ok" && g["parse"] == "ok" {
      // a set without ast-comments reads a commented schema like its comment-free twin
      let wr = if it.comments && !has(mask, "ast-comments") {
        match it.twin.and_then(|t| want[t].as_ref()) {
          Some(t) if t["parse"] == "ok" => t,
          _ => {
            ctx.count("items_twin_unavailable");
            continue;
          }
        }
      } else {
        w
      };
      let (dw, dg) = (wr["display"].as_str().unwrap_or(""), g["display"].as_str().unwrap_or(""));
      ctx.count("compared:display");
      if dw != dg {
        if layout_norm(dw) == layout_norm(dg) {
          report(ctx, "display-layout", &json!(dw), &json!(dg));
        } else {
          report(ctx, "display-tokens", &json!(dw), &json!(dg));
        }
      }
      cmp(ctx, "ast", &json!(norm_ast(wr["ast"].as_str().unwrap_or(""))), &json!(norm_ast(g["ast"].as_str().unwrap_or(""))));
    }
    let verdicts_comparable = !(it.pcre && !has(mask, "freezer"));
    if verdicts_comparable {
      if has(mask, "json") {
        cmp(ctx, "json-verdicts", &w["json"], &g["json"]);
      }
      if has(mask, "cbor") {
        cmp(ctx, "cbor-verdicts", &w["cbor"], &g["cbor"]);
      }
      if has(mask, "csv-validate") {
        cmp(ctx, "csv-verdicts", &w["csv"], &g["csv"]);
      }
    }
  }
}

/// thorough runs visit every feature set: drop the per-set artefacts of the cddl crate (not the dependencies)
fn prune(tdir: &str) {
  for sub in ["debug/deps", "debug/.fingerprint", "debug/incremental"] {
    if let Ok(rd) = std::fs::read_dir(format!("{}/{}", tdir, sub)) {
      for e in rd.flatten() {
        let n = e.file_name().to_string_lossy().to_string();
        if n.starts_with("libcddl-") || n.starts_with("cddl-") || n.starts_with("c19drv-") || n.starts_with("libc19drv-") || sub == "debug/incremental" {
          let p = e.path();
          if p.is_dir() {
            let _ = std::fs::remove_dir_all(&p);
          } else {
            let _ = std::fs::remove_file(&p);
          }
        }
      }
    }
  }
}

fn build_driver(mask: u32, tdir: &str, dest: &str) -> Result<(), String> {
  let fl: Vec<&str> = F.iter().enumerate().filter(|(i, _)| mask >> i & 1 == 1).map(|(_, f)| *f).collect();
  let _ = std::fs::create_dir_all(tdir);
  let b = Command::new("flock")
    .arg(format!("{}/.build.lock", tdir))
    .arg("cargo")
    .current_dir(format!("{}/c19drv", VERIF))
    .env("CARGO_NET_OFFLINE", "true")
    .env("CARGO_BUILD_JOBS", "6")
    .args(["build", "--offline", "--features", &fl.join(","), "--target-dir", tdir])
    .stdin(Stdio::null())
    .output()
    .map_err(|e| format!("cargo could not be started: {}", e))?;
  if !b.status.success() {
    return Err(String::from_utf8_lossy(&b.stderr).to_string());
  }
  std::fs::copy(format!("{}/debug/c19drv", tdir), dest).map_err(|e| format!("copy: {}", e))?;
  Ok(())
}

/// one record per item; None = the driver process died while working on that item
fn run_driver(bin: &str, items: &[Item], mask: u32, tag: &str) -> Vec<Option<Value>> {
  let sdir = format!("{}/target/scratch", VERIF);
  let _ = std::fs::create_dir_all(&sdir);
  let wpath = format!("{}/c19-{}-{}-{}.in", sdir, std::process::id(), mask, tag);
  let opath = format!("{}/c19-{}-{}-{}.out", sdir, std::process::id(), mask, tag);
  let text: String = items.iter().map(|i| format!("{}\n", i.v)).collect();
  std::fs::write(&wpath, text).expect("write workload");
  let mut res: Vec<Option<Value>> = vec![];
  let mut restarts = 0;
  while res.len() < items.len() && restarts < 60 {
    let _ = std::fs::remove_file(&opath);
    let o = Command::new("timeout").arg("600").arg(bin).arg(&wpath).arg(&opath).arg(res.len().to_string()).stdin(Stdio::null()).stdout(Stdio::null()).stderr(Stdio::piped()).output();
    let overflowed = o.as_ref().map(|o| String::from_utf8_lossy(&o.stderr).contains("overflowed its stack")).unwrap_or(false);
    let st = o.map(|o| o.status);
    let recs: Vec<Value> = std::fs::read_to_string(&opath).unwrap_or_default().lines().filter_map(|l| serde_json::from_str(l).ok()).collect();
    for r in recs {
      res.push(Some(r));
    }
    if res.len() < items.len() {
      // exit 3 = the driver's own no-progress watchdog, 124 = timeout(1): time, not behaviour
      let code = st.ok().and_then(|s| s.code());
      if code == Some(3) || code == Some(124) {
        res.push(Some(json!({"timed_out": true})));
      } else if overflowed {
        // stack exhaustion depends on frame sizes, which differ between builds; C05 owns it
        res.push(Some(json!({"stack_overflow": true})));
      } else {
        res.push(None);
      }
      restarts += 1;
    }
  }
  while res.len() < items.len() {
    res.push(None);
  }
  res.truncate(items.len());
  let _ = std::fs::remove_file(&wpath);
  let _ = std::fs::remove_file(&opath);
  res
}

/// white space (outside literals and comments) is kept, as one blank, only between two characters
/// that could otherwise fuse into one token
fn layout_norm(t: &str) -> String {
  let wordish = |c: char| c.is_alphanumeric() || "_-.@$\"'#~&*?+<>=^".contains(c);
  let cs: Vec<char> = t.chars().collect();
  let mut o = String::new();
  let mut i = 0;
  while i < cs.len() {
    let c = cs[i];
    if c == '"' || c == '\'' {
      let q = c;
      o.push(c);
      i += 1;
      while i < cs.len() {
        o.push(cs[i]);
        if cs[i] == '\\' && i + 1 < cs.len() {
          o.push(cs[i + 1]);
          i += 2;
          continue;
        }
        if cs[i] == q {
          break;
        }
        i += 1;
      }
      i += 1;
    } else if c == ';' {
      while i < cs.len() && cs[i] != '\n' {
        o.push(cs[i]);
        i += 1;
      }
      o.push('\n');
    } else if c.is_whitespace() {
      while i < cs.len() && cs[i].is_whitespace() {
        i += 1;
      }
      let prev = o.chars().last();
      if let (Some(p), Some(n)) = (prev, cs.get(i)) {
        if wordish(p) && wordish(*n) {
          o.push(' ');
        }
      }
    } else {
      o.push(c);
      i += 1;
    }
  }
  o
}
