//! C12 — duplicate rule definitions and undefined references are always caught.

use crate::gs::*;
use crate::rng::{hash_str, Rng};
use crate::sup::{default_shards, guard, Ctx, PropDef, Summary, Tier};
use crate::synx::{render, Mode};
use serde_json::json;
use std::collections::{BTreeMap, BTreeSet};

pub static DEF: PropDef = PropDef {
  id: "C12",
  level: "exploration",
  cases,
  run,
  stack_mb: 64,
  case_cpu_s: 60.0,
  crash_is_event: false,
  rule: "Duplicates: documents of 1..14 rules over a pool of 2..5 names (plain, $socket, $$socket, generic), each rule with a kind (type/group) and an assignment operator (=, /=, //=) in any order and at any distance; expected verdict by construction (a plain '=' for a name that already has a plain or incremental definition is an error at that rule; everything else is accepted), cross-checked by an independent pass; the error message must name the rule and, with spans, carry the line of the later definition. Undefined references: generated derivations whose references all resolve (rule names, prelude names, generic parameters in scope, sockets), with zero or one planted defect: an undefined name substituted at the k-th reference position (type, member-key type, generic argument, control argument, range bound, unwrap, group-to-choice, group entry, tag content, #6.<t>), a generic parameter of one rule referenced from another rule (scope leak), or the bare name of a rule that only exists as a $socket; CDDL::from_slice must reject exactly the documents with an unresolved reference and name it. Non-trivial = duplicate documents with >= 3 rules, reference documents with >= 3 reference positions; distinct by text hash.",
  assumptions: &[
    "prelude = the 40 names of RFC 8610 Appendix D as listed in cddl.pest's prelude_type",
    "a name used only as a bareword member key (k: t) is not a reference",
  ],
  required,
  post: None,
  shards: default_shards,
};

fn cases(t: Tier) -> u64 {
  match t {
    Tier::Quick => 20_000,
    Tier::Thorough => 1_500_000,
  }
}

fn required(s: &Summary) -> Option<String> {
  for k in ["dup_expected_reject", "dup_expected_accept", "ref_expected_reject", "ref_expected_accept"] {
    if s.c(k) < 500 {
      return Some(format!("{} = {}", k, s.c(k)));
    }
  }
  None
}

// ---------------------------------------------------------------------------
// duplicates

fn simple_body(rng: &mut Rng, group: bool, params: &[String]) -> GBody {
  if group {
    let e = GEntry::Val { occ: if rng.bool() { Some(GOcc::Opt) } else { None }, key: Some(GKey::Bare(rng.pick_str(&["k", "a", "b"]).to_string())), ty: tname(rng.pick_str(&["int", "tstr", "bool"])) };
    GBody::Group(GEntry::Inline { occ: None, group: GGroup { choices: vec![GChoice { entries: vec![e] }] } })
  } else {
    let leaf = if !params.is_empty() && rng.bool() { name(&params[0]) } else { name(rng.pick_str(&["int", "tstr", "bool", "nil", "float"])) };
    match rng.below(4) {
      0 => GBody::Type(ty(GType2::Array(GGroup { choices: vec![GChoice { entries: vec![GEntry::Val { occ: Some(GOcc::Star), key: None, ty: ty(leaf) }] }] }))),
      1 => GBody::Type(GType { choices: vec![t1(leaf), t1(GType2::Lit(GLit::Uint(rng.below(9))))] }),
      2 => GBody::Type(ty(GType2::Map(GGroup { choices: vec![GChoice { entries: vec![GEntry::Val { occ: None, key: Some(GKey::Bare("x".into())), ty: ty(leaf) }] }] }))),
      _ => GBody::Type(ty(leaf)),
    }
  }
}

fn run_dup(ctx: &mut Ctx, rng: &mut Rng) {
  let nnames = 2 + rng.usize(4);
  let pool = ["a", "b", "foo", "x-y", "t.1", "@z", "r9"];
  let mut names: Vec<(String, Vec<String>)> = vec![];
  for i in 0..nnames {
    let base = pool[(i + rng.usize(3)) % pool.len()].to_string();
    let n = match rng.below(6) {
      0 => format!("${}", base),
      1 => format!("$${}", base),
      _ => base,
    };
    if names.iter().any(|(m, _)| *m == n) {
      continue;
    }
    let params = if !n.starts_with('$') && rng.chance(1, 5) { vec!["t".to_string()] } else { vec![] };
    names.push((n, params));
  }
  let k = 1 + rng.usize(14);
  let mut rules = vec![];
  // expected verdict by construction
  let mut plain: BTreeSet<String> = BTreeSet::new();
  let mut incr: BTreeSet<String> = BTreeSet::new();
  let mut first_dup: Option<(usize, String)> = None;
  // bias: most documents have no duplicate (use each name's plain '=' at most once unless planting)
  let plant = rng.chance(1, 2);
  for i in 0..k {
    let (n, params) = rng.pick(&names).clone();
    let group = if n.starts_with("$$") {
      true
    } else if n.starts_with('$') {
      false
    } else {
      rng.chance(1, 3)
    };
    let want_plain = rng.chance(2, 5);
    let already = plain.contains(&n) || incr.contains(&n);
    let assign = if want_plain && (!already || (plant && rng.chance(1, 2))) {
      Assign::Eq
    } else if !already && !plant && rng.bool() {
      Assign::Eq
    } else if group {
      Assign::GroupAlt
    } else {
      Assign::TypeAlt
    };
    if assign == Assign::Eq {
      if already && first_dup.is_none() {
        first_dup = Some((i, n.clone()));
      }
      plain.insert(n.clone());
    } else {
      incr.insert(n.clone());
    }
    let body = simple_body(rng, group, &params);
    rules.push(GRule { name: n, params, assign, body });
  }
  let g = GS { rules };
  // independent cross-check of the expected verdict
  let mut seen: BTreeMap<&str, bool> = BTreeMap::new();
  let mut chk: Option<usize> = None;
  for (i, r) in g.rules.iter().enumerate() {
    if r.assign == Assign::Eq && seen.contains_key(r.name.as_str()) && chk.is_none() {
      chk = Some(i);
    }
    seen.insert(&r.name, true);
  }
  assert_eq!(chk, first_dup.as_ref().map(|x| x.0), "harness: duplicate oracle disagrees with itself");
  let style = Style { comment_pct: *rng.pick(&[0, 0, 20]), newline_pct: *rng.pick(&[0, 10]), ..Style::plain() };
  let pseed = rng.next_u64();
  let mut prng = Rng::new(pseed);
  let mut p = Printer::new(&mut prng, style);
  p.doc(&g);
  let text = p.out.clone();
  let starts = p.rule_starts.clone();
  ctx.eval();
  if g.rules.len() >= 3 {
    ctx.nontrivial(hash_str(&text));
  }
  let r = guard(|| match cddl::pest_bridge::cddl_from_pest_str(&text) {
    Ok(_) => Ok(()),
    Err(cddl::parser::Error::PARSER { position, msg }) => Err((msg.short.clone(), Some(position))),
    Err(e) => Err((e.to_string(), None)),
  });
  let r = match r {
    Ok(r) => r,
    Err(p) => {
      ctx.count("panics_left_to_C05");
      ctx.note(format!("panic (C05 owns this): {}", crate::api::norm_panic(&p)));
      return;
    }
  };
  let kinds: BTreeSet<&str> = g
    .rules
    .iter()
    .map(|r| match (&r.body, &r.assign) {
      (GBody::Type(_), Assign::Eq) => "type=",
      (GBody::Type(_), _) => "type/=",
      (GBody::Group(_), Assign::Eq) => "group=",
      (GBody::Group(_), _) => "group//=",
    })
    .collect();
  match (&first_dup, r) {
    (None, Ok(())) => {
      ctx.count("dup_expected_accept");
      ctx.count("dup_held");
      ctx.sample("dup-accept", 1, || json!({"text": text}));
    }
    (None, Err((m, _))) => {
      ctx.count("dup_expected_accept");
      let what = if m.contains("already defined") { "false-duplicate" } else { "rejected-other" };
      ctx.report(&format!("dup:{}", what), json!({"text": text, "error": m, "rule_kinds": kinds}));
    }
    (Some((i, n)), Ok(())) => {
      ctx.count("dup_expected_reject");
      // classify: kinds of the earlier definition(s) and of the offending one
      let later = &g.rules[*i];
      let earlier: BTreeSet<&str> = g.rules[..*i]
        .iter()
        .filter(|r| r.name == *n)
        .map(|r| match (&r.body, &r.assign) {
          (GBody::Type(_), Assign::Eq) => "type=",
          (GBody::Type(_), _) => "type/=",
          (GBody::Group(_), Assign::Eq) => "group=",
          (GBody::Group(_), _) => "group//=",
        })
        .collect();
      let lk = if matches!(later.body, GBody::Type(_)) { "type=" } else { "group=" };
      ctx.report(
        &format!("dup:accepted-duplicate:{}-after-{}", lk, earlier.into_iter().collect::<Vec<_>>().join("+")),
        json!({"text": text, "duplicate_rule": n, "rule_index": i}),
      );
    }
    (Some((i, n)), Err((m, pos))) => {
      ctx.count("dup_expected_reject");
      let bare = n.trim_start_matches('$');
      if !m.contains("already defined") || !m.contains(bare) {
        ctx.report("dup:error-does-not-name-rule", json!({"text": text, "duplicate_rule": n, "error": m}));
      } else if let Some(p) = pos {
        let want_line = 1 + text.as_bytes()[..starts[*i]].iter().filter(|b| **b == b'\n').count();
        if p.line != want_line {
          ctx.report("dup:error-at-wrong-definition", json!({"text": text, "duplicate_rule": n, "error": m, "position": format!("{:?}", p), "expected_line": want_line}));
        } else {
          ctx.count("dup_held");
          ctx.sample("dup-reject", 1, || json!({"text": text, "error": m, "line": p.line}));
        }
      } else {
        ctx.count("dup_held");
      }
    }
  }
}

// ---------------------------------------------------------------------------
// undefined references

/// all reference positions of a document, in a fixed order: (rule index, name)
fn refs(g: &GS) -> Vec<(usize, String)> {
  let mut out = vec![];
  for (i, r) in g.rules.iter().enumerate() {
    let mut one = GS { rules: vec![r.clone()] };
    let mut names: Vec<String> = vec![];
    {
      let names = std::cell::RefCell::new(&mut names);
      let mut t2 = |t: &mut GType2| match t {
        GType2::Name(n, _) | GType2::Unwrap(n, _) | GType2::EnumName(n, _) => names.borrow_mut().push(n.clone()),
        GType2::Tag(Some(GTagC::Type(n)), _) | GType2::Major(_, Some(GTagC::Type(n))) => names.borrow_mut().push(n.clone()),
        _ => {}
      };
      let mut t1f = |_: &mut GType1| {};
      let mut en = |e: &mut GEntry| {
        if let GEntry::Name { name, .. } = e {
          names.borrow_mut().push(name.clone());
        }
      };
      VisitMut { t2: &mut t2, t1: &mut t1f, entry: &mut en }.gs(&mut one);
    }
    for n in names {
      out.push((i, n));
    }
  }
  out
}

fn unresolved(g: &GS) -> Vec<String> {
  let defined: BTreeSet<&str> = g.rules.iter().map(|r| r.name.as_str()).collect();
  let mut bad = vec![];
  for (i, n) in refs(g) {
    if n.starts_with('$') {
      continue;
    }
    if g.rules[i].params.iter().any(|p| *p == n) {
      continue;
    }
    if defined.contains(n.as_str()) || PRELUDE_ALL.contains(&n.as_str()) {
      continue;
    }
    bad.push(n);
  }
  bad
}

/// replace the k-th reference position (in `refs` order) by `new`
fn replace_ref(g: &GS, k: usize, new: &str) -> GS {
  let mut c = g.clone();
  let cnt = std::cell::Cell::new(0usize);
  {
    let mut t2 = |t: &mut GType2| match t {
      GType2::Name(n, _) | GType2::Unwrap(n, _) | GType2::EnumName(n, _) => {
        if cnt.get() == k {
          *n = new.to_string();
        }
        cnt.set(cnt.get() + 1);
      }
      GType2::Tag(Some(GTagC::Type(n)), _) | GType2::Major(_, Some(GTagC::Type(n))) => {
        if cnt.get() == k {
          *n = new.to_string();
        }
        cnt.set(cnt.get() + 1);
      }
      _ => {}
    };
    let mut t1f = |_: &mut GType1| {};
    let mut en = |e: &mut GEntry| {
      if let GEntry::Name { name, .. } = e {
        if cnt.get() == k {
          *name = new.to_string();
        }
        cnt.set(cnt.get() + 1);
      }
    };
    // same traversal order as `refs`: rule by rule
    for r in &mut c.rules {
      let mut one = GS { rules: vec![r.clone()] };
      VisitMut { t2: &mut t2, t1: &mut t1f, entry: &mut en }.gs(&mut one);
      *r = one.rules.remove(0);
    }
  }
  c
}

fn run_ref(ctx: &mut Ctx, rng: &mut Rng) {
  let mut prof = Profile::syntax();
  prof.max_rules = 6;
  prof.max_depth = 3;
  let mut g = {
    let mut gen = Gen::new(rng, prof);
    gen.allow_any_hash = false;
    gen.allow_paren_key = false;
    gen.allow_bare_group_rule = false;
    gen.schema()
  };
  // make every reference resolve first: dangling names become prelude names
  loop {
    let bad = unresolved(&g);
    if bad.is_empty() {
      break;
    }
    let all = refs(&g);
    let k = all.iter().position(|(i, n)| !n.starts_with('$') && !g.rules[*i].params.contains(n) && bad.contains(n)).unwrap();
    g = replace_ref(&g, k, "int");
  }
  let all = refs(&g);
  let mut planted: Option<(String, &'static str)> = None;
  if !all.is_empty() && rng.chance(1, 2) {
    let k = rng.usize(all.len());
    let (ri, _) = all[k];
    match rng.below(5) {
      0 => {
        // scope leak: a generic parameter of another rule
        let other: Vec<&GRule> = g.rules.iter().filter(|r| !r.params.is_empty()).collect();
        if let Some(o) = other.first() {
          let p = o.params[0].clone();
          let cand = replace_ref(&g, k, &p);
          if !unresolved(&cand).is_empty() {
            g = cand;
            planted = Some((p, "generic-param-out-of-scope"));
          }
        }
      }
      1 => {
        // the bare name of a rule that only exists as a socket
        if let Some(s) = g.rules.iter().find(|r| r.name.starts_with('$')) {
          let bare = s.name.trim_start_matches('$').to_string();
          let cand = replace_ref(&g, k, &bare);
          if !unresolved(&cand).is_empty() {
            g = cand;
            planted = Some((bare, "bare-name-of-socket"));
          }
        }
      }
      _ => {
        let nm = format!("{}{}", rng.pick_str(&["undef", "no-such", "x.y", "Tx", "int2", "t"]), rng.below(100));
        let cand = replace_ref(&g, k, &nm);
        if !unresolved(&cand).is_empty() {
          g = cand;
          planted = Some((nm, "fresh-name"));
        }
      }
    }
    let _ = ri;
  }
  let bad = unresolved(&g);
  let style = Style::random(rng, true);
  let pseed = rng.next_u64();
  let text = render(&g, &Mode::Orig(style, pseed));
  // only documents the plain parser accepts are in scope (duplicates / grammar deviations belong elsewhere)
  let accepted = matches!(guard(|| cddl::cddl_from_str(&text, false).is_ok()), Ok(true));
  if !accepted {
    ctx.count("ref_docs_not_parsed_skipped");
    return;
  }
  ctx.eval();
  if all.len() >= 3 {
    ctx.nontrivial(hash_str(&text));
  }
  let r = match guard(|| cddl::ast::CDDL::from_slice(text.as_bytes()).map(|_| ())) {
    Ok(r) => r,
    Err(p) => {
      ctx.count("panics_left_to_C05");
      ctx.note(format!("panic (C05 owns this): {}", crate::api::norm_panic(&p)));
      return;
    }
  };
  // position class of the planted reference, for the signature
  match (bad.is_empty(), r) {
    (true, Ok(())) => {
      ctx.count("ref_expected_accept");
      ctx.count("ref_held");
      ctx.sample("ref-accept", 1, || json!({"text": text}));
    }
    (true, Err(e)) => {
      ctx.count("ref_expected_accept");
      let what = if e.contains("missing definition") { "false-undefined" } else { "rejected-other" };
      ctx.report(&format!("ref:{}", what), json!({"text": text, "error": e}));
    }
    (false, Ok(())) => {
      ctx.count("ref_expected_reject");
      let (n, how) = planted.clone().unwrap_or((bad[0].clone(), "unplanted"));
      ctx.report(&format!("ref:accepted-undefined:{}", how), json!({"text": text, "undefined": n, "all_unresolved": bad}));
    }
    (false, Err(e)) => {
      ctx.count("ref_expected_reject");
      if !e.contains("missing definition") || !bad.iter().any(|b| e.contains(b.as_str())) {
        ctx.report("ref:error-does-not-name-reference", json!({"text": text, "error": e, "unresolved": bad}));
      } else {
        ctx.count("ref_held");
        if let Some((_, how)) = &planted {
          ctx.count(&format!("ref_planted:{}", how));
        }
        ctx.sample("ref-reject", 1, || json!({"text": text, "error": e}));
      }
    }
  }
}

fn run(ctx: &mut Ctx, idx: u64) {
  let mut rng = ctx.rng.clone();
  if idx % 2 == 0 {
    run_dup(ctx, &mut rng);
  } else {
    run_ref(ctx, &mut rng);
  }
}
