//! C15 — source positions in the AST and in parse errors are accurate.

use crate::astwalk::{self, N};
use crate::corpus;
use crate::gs::Profile;
use crate::props::c06::gen_doc;
use crate::rng::hash_str;
use crate::sup::{default_shards, guard, Ctx, PropDef, Summary, Tier};
use serde_json::json;

pub static DEF: PropDef = PropDef {
  id: "C15",
  level: "exploration",
  cases,
  run,
  stack_mb: 64,
  case_cpu_s: 60.0,
  crash_is_event: false,
  rule: "Accepted documents (generated derivations printed with random layout incl. multi-byte characters in strings and comments, CRLF, tabs, comments; fixtures): the harness walks the public AST and checks every span (start,end,line): 0 <= start <= end <= len on UTF-8 boundaries, line = 1 + number of LF before start, child inside parent, siblings ordered without overlap, identifier span slices to socket prefix + name, rule span starts at its name; the defining occurrences of rule names are additionally compared with the offsets recorded by the printer. Rejected documents (single-edit mutants of the above, edits biased to positions next to multi-byte characters and to end of input): Error::PARSER position: index and range inside [0,len] on character boundaries, range non-inverted, line/column = those of index (column counted in characters, 1-based). Non-trivial = accepted document with >= 10 spans checked, or rejected document with a non-ASCII character; distinct by text hash.",
  assumptions: &[
    "a span equal to (0,0,0) on a node that is not at offset 0 is a placeholder for 'no source text' and is skipped (counted in the evidence)",
    "column convention: 1-based, counted in Unicode scalar values from the last LF before index",
  ],
  required,
  post: None,
  shards: default_shards,
};

fn cases(t: Tier) -> u64 {
  match t {
    Tier::Quick => 8_000,
    Tier::Thorough => 400_000,
  }
}

fn required(s: &Summary) -> Option<String> {
  if s.c("accepted_docs") < 1500 || s.c("rejected_docs") < 1000 {
    return Some(format!("accepted {} rejected {}", s.c("accepted_docs"), s.c("rejected_docs")));
  }
  None
}

struct Chk<'t> {
  text: &'t str,
  /// (signature, detail)
  bad: Vec<(String, String)>,
  spans: u64,
  placeholders: u64,
  inner_ws: u64,
}

impl<'t> Chk<'t> {
  fn fail(&mut self, inv: &str, node: &N, parent: &str, extra: String) {
    if self.bad.len() < 20 {
      self.bad.push((format!("span:{}:{}<{}", inv, node.kind, parent), format!("{:?} {}", node.span, extra)));
    }
  }

  /// returns the effective extent of the node (its own span or the hull of its children)
  fn node(&mut self, nd: &N, parent: &str, penv: Option<(usize, usize)>) -> Option<(usize, usize)> {
    let len = self.text.len();
    let mut env = penv;
    let mut own: Option<(usize, usize)> = None;
    if let Some((s, e, l)) = nd.span {
      if (s, e, l) == (0, 0, 0) && penv.map(|p| p.0 > 0).unwrap_or(false) {
        self.placeholders += 1;
      } else {
        self.spans += 1;
        let mut ok = true;
        if !(s <= e && e <= len) {
          self.fail("bounds", nd, parent, format!("len={}", len));
          ok = false;
        } else if !self.text.is_char_boundary(s) || !self.text.is_char_boundary(e) {
          self.fail("char-boundary", nd, parent, String::new());
          ok = false;
        }
        if ok {
          let want = 1 + self.text.as_bytes()[..s].iter().filter(|b| **b == b'\n').count();
          if l != want {
            self.fail("line", nd, parent, format!("expected line {}", want));
          }
          if let Some((ps, pe)) = penv {
            if !(ps <= s && e <= pe) {
              self.fail("outside-parent", nd, parent, format!("parent=({},{})", ps, pe));
            }
          }
          if let Some(t) = &nd.ident_text {
            if &self.text[s..e] != t {
              // the parser accepts white space and comments between '$' / '$$' and the name (implicit white space of
              // the pest grammar, a C03 matter): the span is then still the exact source of the identifier
              let mut squeezed = String::new();
              let mut in_comment = false;
              for c in self.text[s..e].chars() {
                if in_comment {
                  if c == '\n' {
                    in_comment = false;
                  }
                } else if c == ';' {
                  in_comment = true;
                } else if !c.is_whitespace() {
                  squeezed.push(c);
                }
              }
              if &squeezed == t && self.text[s..e].starts_with('$') {
                self.inner_ws += 1;
              } else {
                self.fail("ident-text", nd, parent, format!("slice={:?} ident={:?}", &self.text[s..e], t));
              }
            }
          }
          own = Some((s, e));
          env = Some((s, e));
        }
      }
    }
    // children: ordered, non-overlapping
    let mut prev_end: Option<(usize, &'static str)> = None;
    let mut hull: Option<(usize, usize)> = None;
    for c in &nd.children {
      if let Some((cs, ce)) = self.node(c, nd.kind, env) {
        if let Some((pe, pk)) = prev_end {
          if cs < pe {
            self.fail("sibling-order", c, nd.kind, format!("previous sibling {} ends at {}", pk, pe));
          }
        }
        prev_end = Some((ce, c.kind));
        hull = Some(match hull {
          None => (cs, ce),
          Some((a, b)) => (a.min(cs), b.max(ce)),
        });
      }
    }
    if nd.kind.starts_with("Rule::") {
      if let (Some((s, _)), Some(first)) = (own, nd.children.first()) {
        if let Some((fs, _, _)) = first.span {
          if fs != s {
            self.fail("rule-start", nd, parent, format!("name starts at {}", fs));
          }
        }
      }
    }
    own.or(hull)
  }
}

fn check_accepted(ctx: &mut Ctx, text: &str, ast: &cddl::ast::CDDL, printer_rule_starts: Option<&[usize]>) {
  let tree = astwalk::doc(ast);
  let mut c = Chk { text, bad: vec![], spans: 0, placeholders: 0, inner_ws: 0 };
  c.node(&tree, "-", None);
  if let Some(starts) = printer_rule_starts {
    if starts.len() == tree.children.len() {
      for (i, r) in tree.children.iter().enumerate() {
        if let Some((s, _, _)) = r.span {
          if s != starts[i] {
            c.bad.push(("span:rule-offset-vs-printer".into(), format!("rule {} starts at {} but was printed at {}", i, s, starts[i])));
          }
        }
      }
    }
  }
  ctx.add("spans_checked", c.spans);
  ctx.add("placeholder_spans_skipped", c.placeholders);
  ctx.add("socket_identifiers_with_inner_white_space_left_to_C03", c.inner_ws);
  if c.spans >= 10 {
    ctx.nontrivial(hash_str(text));
  }
  if c.bad.is_empty() {
    ctx.count("accepted_held");
  }
  let mut seen = std::collections::BTreeSet::new();
  for (sig, d) in c.bad {
    if seen.insert(sig.clone()) {
      ctx.report(&sig, json!({"text": text, "detail": d}));
    }
  }
}

fn check_rejected(ctx: &mut Ctx, text: &str, pos: &cddl::lexer::Position) {
  let len = text.len();
  let mut bad: Vec<(String, String)> = vec![];
  let (a, b) = pos.range;
  let idx = pos.index;
  if idx > len {
    bad.push(("errpos:index-out-of-input".into(), format!("{:?} len={}", pos, len)));
  } else if !text.is_char_boundary(idx) {
    bad.push(("errpos:index-inside-char".into(), format!("{:?}", pos)));
  } else {
    let line = 1 + text.as_bytes()[..idx].iter().filter(|c| **c == b'\n').count();
    let ls = text[..idx].rfind('\n').map(|p| p + 1).unwrap_or(0);
    let col = 1 + text[ls..idx].chars().count();
    if pos.line != line {
      bad.push(("errpos:line".into(), format!("{:?} expected line {}", pos, line)));
    } else if pos.column != col {
      let bytes_col = 1 + (idx - ls);
      let kind = if pos.column == bytes_col { "column-in-bytes" } else { "column" };
      bad.push((format!("errpos:{}", kind), format!("{:?} expected column {}", pos, col)));
    }
  }
  if a > b {
    bad.push(("errpos:range-inverted".into(), format!("{:?}", pos)));
  } else if b > len {
    bad.push(("errpos:range-out-of-input".into(), format!("{:?} len={}", pos, len)));
  } else if !text.is_char_boundary(a) || !text.is_char_boundary(b) {
    bad.push(("errpos:range-inside-char".into(), format!("{:?}", pos)));
  }
  if !text.is_ascii() {
    ctx.nontrivial(hash_str(text));
  }
  if bad.is_empty() {
    ctx.count("rejected_held");
  }
  for (sig, d) in bad {
    ctx.report(&sig, json!({"text": text, "detail": d}));
  }
}

pub fn check(ctx: &mut Ctx, text: &str, starts: Option<&[usize]>) {
  ctx.eval();
  let r = guard(|| match cddl::pest_bridge::cddl_from_pest_str(text) {
    Ok(ast) => {
      let tree_ok = true;
      let _ = tree_ok;
      // the walk happens inside the guard so that `ast` (borrowing text) stays local
      Ok(astwalk::doc(&ast))
    }
    Err(cddl::parser::Error::PARSER { position, msg }) => Err(Some((position, msg.to_string()))),
    Err(_) => Err(None),
  });
  match r {
    Err(p) => {
      ctx.count("panics_left_to_C05");
      ctx.note(format!("panic (C05 owns this): {}", crate::api::norm_panic(&p)));
    }
    Ok(Ok(_)) => {
      ctx.count("accepted_docs");
      // re-parse outside the guard to keep borrows simple
      if let Ok(ast) = cddl::pest_bridge::cddl_from_pest_str(text) {
        check_accepted(ctx, text, &ast, starts);
      }
      ctx.sample("accepted", 2, || json!({"text": text}));
    }
    Ok(Err(Some((pos, msg)))) => {
      ctx.count("rejected_docs");
      check_rejected(ctx, text, &pos);
      ctx.sample("rejected", 2, || json!({"text": text, "position": format!("{:?}", pos), "msg": msg}));
    }
    Ok(Err(None)) => ctx.count("rejected_without_position"),
  }
}

const UNI: &[&str] = &["é", "ß", "日", "😀", "\u{a0}", "Ω"];

fn run(ctx: &mut Ctx, idx: u64) {
  let mut rng = ctx.rng.clone();
  let (text, starts): (String, Option<Vec<usize>>) = if idx % 10 < 8 {
    let g = {
      let mut gen = crate::gs::Gen::new(&mut rng, Profile::syntax());
      gen.schema()
    };
    let style = crate::gs::Style::random(&mut rng, true);
    let mut p = crate::gs::Printer::new(&mut rng, style);
    p.doc(&g);
    (p.out.clone(), Some(p.rule_starts.clone()))
  } else {
    let _ = gen_doc;
    let corp = corpus::schemas();
    let t = rng.pick(corp).clone();
    (if t.len() > 6000 { t.lines().take(80).collect::<Vec<_>>().join("\n") + "\n" } else { t }, None)
  };
  check(ctx, &text, starts.as_deref());
  // rejected side: single edits, biased to multi-byte neighbourhoods and the end of input
  for _ in 0..2 {
    let mut m = text.clone();
    match rng.below(6) {
      0 => {
        // truncate at a character boundary
        let mut cut = rng.usize(m.len() + 1);
        while !m.is_char_boundary(cut) {
          cut -= 1;
        }
        m.truncate(cut);
      }
      1 => {
        // insert a multi-byte character at a random boundary
        let mut at = rng.usize(m.len() + 1);
        while !m.is_char_boundary(at) {
          at -= 1;
        }
        m.insert_str(at, rng.pick_str(UNI));
      }
      2 => {
        // a stray token right after a multi-byte character, if any
        let pos: Vec<usize> = m.char_indices().filter(|(_, c)| c.len_utf8() > 1).map(|(i, c)| i + c.len_utf8()).collect();
        if !pos.is_empty() {
          let at = *rng.pick(&pos);
          m.insert_str(at, rng.pick_str(&[" ) ", " = ", "\"", " ] ", " é= "]));
        } else {
          m.push_str(" é");
        }
      }
      3 => m.push_str(rng.pick_str(&["\n= x", " /", "\nr = ", "\né", " ,,", "\nx = \"é", "\nx = [ \"日本\", "])),
      _ => m = corpus::mutate_text(&mut rng, &m),
    }
    check(ctx, &m, None);
  }
}
