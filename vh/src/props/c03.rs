//! C03 — the parser accepts exactly the RFC 8610/9682 grammar and mirrors it in the AST.
//!
//! Part A (mirror): for a generated derivation g printed with random layout,
//! `cddl_from_str(print(g))` must be Ok and `Skel(ast) == Skel(g)`.
//! Part B (acceptance): see `abnf` (reference recogniser) — texts on which the
//! recogniser and the parser disagree are events.

use crate::gs::{self, Gen, Profile, Style, GS};
use crate::rng::hash_str;
use crate::skel;
use crate::sup::{default_shards, guard, Ctx, PropDef, Summary, Tier};
use serde_json::json;

pub static DEF: PropDef = PropDef {
  id: "C03",
  level: "exploration",
  cases,
  run,
  stack_mb: 64,
  case_cpu_s: 60.0,
  crash_is_event: false,
  rule: "Mirror: a derivation tree g is generated over the whole grammar (every Type2 form, all literal kinds, occurrences, member-key forms, cuts, generics, sockets, /= and //=, ranges, all registered control names), printed with randomised legal layout (spaces, tabs, CR LF, comments at S positions, optional commas, literal spellings) and parsed; the AST skeleton (rule order, names, sockets, kind, assignment operator, generic parameters, nesting of choices/groups/occurrences/member keys/operators, literal kind and value) must equal the skeleton of g. Acceptance: the same texts, single-edit mutants of them and of the repository fixtures, and short strings over a CDDL alphabet are classified by an ABNF interpreter running the RFC 8610 App. B + RFC 9682 grammar with the documented leniencies; disagreement with cddl_from_str is an event. Non-trivial = a generated document with >= 3 distinct construct tags, or a mutant on which recogniser and parser agree on rejection after agreeing on acceptance of its origin; distinct by text hash.",
  assumptions: &[
    "the ABNF of RFC 8610 Appendix B / RFC 9682 Appendix A is transcribed by hand into vh/src/abnf_cddl.txt",
    "texts whose classification depends on points the RFCs leave open (C1 controls in strings, case variants of prefixes) are counted as unspecified, not judged",
    "group-vs-type rule ambiguity of the RFC grammar is avoided by the printer (group rule bodies always carry a key, an occurrence or several entries)",
  ],
  required,
  post: None,
  shards: default_shards,
};

fn cases(t: Tier) -> u64 {
  match t {
    Tier::Quick => 3_000,
    Tier::Thorough => 30_000,
  }
}

fn required(s: &Summary) -> Option<String> {
  if s.c("mirror_docs") < 1000 {
    return Some(format!("only {} mirror documents", s.c("mirror_docs")));
  }
  None
}

pub fn parse_skel(text: &str) -> Result<Result<Vec<String>, String>, String> {
  guard(|| cddl::cddl_from_str(text, false).map(|c| skel::skel_ast(&c)))
}

use crate::synx::{self, Mode, Repair};



fn nop_t2(_: &mut gs::GType2) {}
fn nop_t1(_: &mut gs::GType1) {}
fn nop_e(_: &mut gs::GEntry) {}

fn rep_grouprule_bare(g: &GS) -> GS {
  let mut c = g.clone();
  for r in &mut c.rules {
    if let gs::GBody::Group(e) = &mut r.body {
      if !matches!(e, gs::GEntry::Inline { occ: None, .. }) {
        let inner = e.clone();
        *e = gs::GEntry::Inline { occ: None, group: gs::GGroup { choices: vec![gs::GChoice { entries: vec![inner] }] } };
      }
    }
  }
  c
}

fn rep_bytes_key(g: &GS) -> GS {
  gs::rewrite(g, &mut nop_t2, &mut nop_t1, &mut |e| {
    if let gs::GEntry::Val { key: Some(k @ gs::GKey::Value(gs::GLit::Bytes(..))), .. } = e {
      *k = gs::GKey::Value(gs::GLit::Text("k".into()));
    }
  })
}

fn rep_paren_head(g: &GS) -> GS {
  gs::rewrite(g, &mut nop_t2, &mut nop_t1, &mut |e| {
    if let gs::GEntry::Val { key, ty, .. } = e {
      match key {
        None => {
          if let gs::GType2::Paren(_) = ty.choices[0].t2 {
            ty.choices[0].t2 = gs::name("int");
          }
        }
        Some(gs::GKey::Type1 { t1, .. }) => {
          if let gs::GType2::Paren(_) = t1.t2 {
            t1.t2 = gs::name("int");
          }
        }
        _ => {}
      }
    }
  })
}

fn rep_any_hash(g: &GS) -> GS {
  gs::rewrite(
    g,
    &mut |t| {
      if *t == gs::GType2::Any {
        *t = gs::name("any");
      }
    },
    &mut nop_t1,
    &mut nop_e,
  )
}

fn rep_major(g: &GS) -> GS {
  gs::rewrite(
    g,
    &mut |t| {
      if let gs::GType2::Major(..) = t {
        *t = gs::name("uint");
      }
    },
    &mut nop_t1,
    &mut nop_e,
  )
}

/// Labelled deviations: a disagreement on the shrunk derivation `small` is explained by
/// label L iff L's repair changes `small` and the repaired derivation parses to its own skeleton.
pub const REPAIRS: &[(&str, Repair)] = &[
  ("grouprule-bare-entry", rep_grouprule_bare),
  ("bytes-value-memberkey", rep_bytes_key),
  ("paren-type-head-entry", rep_paren_head),
  ("hash-any-before-paren-or-digit", rep_any_hash),
  ("hash-major-before-paren", rep_major),
];

/// None = the text parses to the skeleton of its derivation
pub fn classify(text: &str, g: &GS) -> Option<String> {
  match parse_skel(text) {
    Err(_) => None, // a panic belongs to C05
    Ok(Err(_)) => Some("reject-generated".into()),
    Ok(Ok(got)) => skel::first_diff(&skel::skel_gs(g), &got).map(|(_, w, o)| format!("mirror:{}", skel::diff_sig(&w, &o))),
  }
}

fn mirror(ctx: &mut Ctx, g: &GS, text: &str, style: &Style, pseed: u64) {
  ctx.eval();
  ctx.count("mirror_docs");
  let tags = gs::tags(g);
  for t in &tags {
    ctx.count(&format!("tag:{}", t));
  }
  if tags.len() >= 3 {
    ctx.nontrivial(hash_str(text));
  }
  if let Err(p) = parse_skel(text) {
    ctx.count("panics_left_to_C05");
    ctx.note(format!("parser panicked (C05 owns this): {}", crate::api::norm_panic(&p)));
    return;
  }
  let modes = [Mode::Plain, Mode::NoComma, Mode::Spell(ctx.idx), Mode::NoCommaSpell(ctx.idx), Mode::Comments(ctx.idx), Mode::Orig(style.clone(), pseed)];
  match synx::pipeline(g, text, ctx.idx, &modes, &classify, &|c| c.split(':').next().unwrap_or(c).to_string(), REPAIRS, 1500) {
    None => {
      ctx.count("mirror_equal");
      ctx.sample("mirror", 3, || json!({"text": text, "skeleton": skel::skel_gs(g)}));
    }
    Some(o) => {
      ctx.count("mirror_disagreements");
      let err = match cddl::cddl_from_str(text, false) {
        Err(e) => e.chars().take(300).collect::<String>(),
        Ok(_) => String::new(),
      };
      let (exp, obs) = match parse_skel(text) {
        Ok(Ok(got)) => match skel::first_diff(&skel::skel_gs(g), &got) {
          Some((_, w, o2)) => {
            let i = w.bytes().zip(o2.bytes()).take_while(|(a, b)| a == b).count();
            let cut = |s: &str| {
              let mut a = i.saturating_sub(80);
              while !s.is_char_boundary(a) {
                a -= 1;
              }
              let mut b = (i + 80).min(s.len());
              while !s.is_char_boundary(b) {
                b -= 1;
              }
              s[a..b].to_string()
            };
            (cut(&w), cut(&o2))
          }
          None => (String::new(), String::new()),
        },
        _ => (String::new(), String::new()),
      };
      for sig in &o.sigs {
        ctx.report(sig, json!({"text": text, "error": err, "shrunk": o.shrunk_text, "mode": format!("{:?}", o.mode), "labels": o.labels,
          "expected_near_diff": exp, "observed_near_diff": obs}));
      }
    }
  }
}

/// byte offsets of the text that lie outside text literals, byte-string literals and comments
fn outside_literals(text: &str) -> Vec<(usize, char)> {
  let cs: Vec<(usize, char)> = text.char_indices().collect();
  let mut out = vec![];
  let mut i = 0;
  while i < cs.len() {
    let (o, c) = cs[i];
    if c == '"' || c == '\'' {
      let q = c;
      i += 1;
      while i < cs.len() {
        if cs[i].1 == '\\' {
          i += 2;
          continue;
        }
        if cs[i].1 == q {
          break;
        }
        i += 1;
      }
      i += 1;
    } else if c == ';' {
      while i < cs.len() && cs[i].1 != '\n' {
        i += 1;
      }
      // the terminating newline is not offered either: a character inserted in front of it would
      // become part of the comment
      i += 1;
    } else {
      out.push((o, c));
      i += 1;
    }
  }
  out
}

/// Rejection half with an oracle by construction: an edit that certainly leaves the language.
/// (a) deleting one bracket outside literals and comments unbalances the nesting that every
/// derivable text has; (b) inserting a character that no production outside literals and
/// comments can derive. The parser (and CDDL::from_slice) must reject the result.
fn certainly_invalid(ctx: &mut Ctx, rng: &mut crate::rng::Rng, text: &str) {
  let pos = outside_literals(text);
  if pos.is_empty() {
    return;
  }
  let brackets: Vec<&(usize, char)> = pos.iter().filter(|(_, c)| "()[]{}".contains(*c)).collect();
  let mut muts: Vec<(&'static str, String)> = vec![];
  if !brackets.is_empty() {
    let (o, c) = **rng.pick(&brackets);
    let mut t = text.to_string();
    t.replace_range(o..o + c.len_utf8(), "");
    muts.push(("bracket-deleted", t));
  }
  {
    let (o, _) = *rng.pick(&pos);
    let ch = *rng.pick(&['!', '`', '|', '\\', '%', '\u{7f}', '\u{0}', '\u{a7}']);
    let mut t = text.to_string();
    t.insert(o, ch);
    muts.push(("illegal-character-inserted", t));
  }
  for (kind, t) in muts {
    ctx.eval();
    ctx.count("certainly_invalid_docs");
    let r = guard(|| (cddl::cddl_from_str(&t, false).is_ok(), cddl::ast::CDDL::from_slice(t.as_bytes()).is_ok()));
    match r {
      Err(_) => ctx.count("panics_left_to_C05"),
      Ok((false, false)) => ctx.count("certainly_invalid_rejected"),
      Ok((a, b)) => {
        // minimise by dropping whole rules (lines) while the mutant is still accepted
        ctx.report(&format!("accepts-non-derivable:{}", kind), json!({"text": t, "original": text, "edit": kind, "cddl_from_str_accepts": a, "from_slice_accepts": b}));
      }
    }
  }
}

fn run(ctx: &mut Ctx, _idx: u64) {
  let mut rng = ctx.rng.clone();
  let g = {
    let mut p = Profile::syntax();
    p.text_pool = crate::gs::TEXT_POOL_ESC;
    let mut gen = Gen::new(&mut rng, p);
    gen.schema()
  };
  let style = Style::random(&mut rng, true);
  // the text is exactly render(g, Orig(style, pseed)), so a layout-dependent disagreement can be re-rendered while shrinking
  let pseed = rng.next_u64();
  let text = synx::render(&g, &Mode::Orig(style.clone(), pseed));
  mirror(ctx, &g, &text, &style, pseed);
  certainly_invalid(ctx, &mut rng, &text);
}
