pub mod c11;

use crate::sup::PropDef;

pub fn all() -> Vec<&'static PropDef> {
  vec![&c11::DEF]
}

pub fn find(id: &str) -> Option<&'static PropDef> {
  all().into_iter().find(|d| d.id.eq_ignore_ascii_case(id))
}
