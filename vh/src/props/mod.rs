pub mod c05;
pub mod c11;

use crate::sup::PropDef;

pub fn all() -> Vec<&'static PropDef> {
  vec![&c05::DEF, &c11::DEF]
}

pub fn find(id: &str) -> Option<&'static PropDef> {
  all().into_iter().find(|d| d.id.eq_ignore_ascii_case(id))
}
