pub mod c01;
pub mod c02;
pub mod c03;
pub mod c04;
pub mod c05;
pub mod c06;
pub mod c07;
pub mod c08;
pub mod c09;
pub mod c10;
pub mod c11;
pub mod c12;
pub mod c13;
pub mod c14;
pub mod c15;
pub mod c16;
pub mod c17;
pub mod c18;
pub mod c19;
pub mod c20;

use crate::sup::PropDef;

pub fn all() -> Vec<&'static PropDef> {
  vec![&c01::DEF, &c02::DEF, &c03::DEF, &c04::DEF, &c05::DEF, &c06::DEF, &c07::DEF, &c08::DEF, &c09::DEF, &c10::DEF, &c11::DEF, &c12::DEF, &c13::DEF, &c14::DEF, &c15::DEF, &c16::DEF, &c17::DEF, &c18::DEF, &c19::DEF, &c20::DEF]
}

pub fn find(id: &str) -> Option<&'static PropDef> {
  all().into_iter().find(|d| d.id.eq_ignore_ascii_case(id))
}
