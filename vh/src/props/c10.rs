//! C10 — map validation does not depend on entry order; duplicate keys are never collapsed.

use crate::dv::{self, DV};
use crate::gs::{self, *};
use crate::props::c01::{gen_docs, gen_schema};
use crate::reval::{Eval, Tri};
use crate::rng::{hash_str, Rng};
use crate::sup::{default_shards, Ctx, PropDef, Summary, Tier};
use crate::vcore;
use serde_json::json;

pub static DEF: PropDef = PropDef {
  id: "C10",
  level: "exploration",
  cases,
  run,
  stack_mb: 64,
  case_cpu_s: 10.0,
  crash_is_event: false,
  rule: "Schemas with maps (literal keys of every scalar kind, type-keyed tables with occurrence bounds, optional members, cuts, group choices, nested maps) x documents (members, near misses, unrelated). (1) Every map inside a document is permuted - all permutations up to 4 entries, 12 random ones above - in the JSON text and in the CBOR encoding; the verdict must not change. (2) The members of a schema map group whose keys are pairwise different literals (hence disjoint) are permuted; the verdict must not change. (3) CBOR only: a pair of a map is duplicated (same key, same or changed value) and the verdict is compared with R-eval deciding duplicates by pair-to-member assignment (each physical pair must be accounted for). Disagreements are shrunk on schema and document. Non-trivial = document with a map of >= 2 entries for which >= 2 orders were run; distinct by (schema, document).",
  assumptions: &[
    "key sets of schema members are judged disjoint only when all keys of the group choice are distinct literals",
    "serde_json is built without preserve_order, so JSON text order is normalised before validation unless a change to the build enables it",
  ],
  required,
  post: None,
  shards: default_shards,
};

fn cases(t: Tier) -> u64 {
  match t {
    Tier::Quick => 24_000,
    Tier::Thorough => 150_000,
  }
}

fn required(s: &Summary) -> Option<String> {
  if s.c("doc_permutations") < 10_000 || s.c("schema_permutations") < 1_000 || s.c("duplicate_cases") < 500 {
    return Some(format!("doc perms {} schema perms {} dups {}", s.c("doc_permutations"), s.c("schema_permutations"), s.c("duplicate_cases")));
  }
  None
}

fn verdict(cbor: bool, st: &str, v: &DV) -> Option<bool> {
  if cbor {
    vcore::impl_cbor(st, v)
  } else {
    vcore::impl_json(st, v)
  }
}

/// all maps of a value, as paths
fn map_paths(v: &DV, path: &mut Vec<usize>, out: &mut Vec<(Vec<usize>, usize)>) {
  match v {
    DV::Map(m) => {
      if m.len() >= 2 {
        out.push((path.clone(), m.len()));
      }
      for (i, (_, x)) in m.iter().enumerate() {
        path.push(i);
        map_paths(x, path, out);
        path.pop();
      }
    }
    DV::Array(a) => {
      for (i, x) in a.iter().enumerate() {
        path.push(i);
        map_paths(x, path, out);
        path.pop();
      }
    }
    DV::Tag(_, x) => {
      path.push(0);
      map_paths(x, path, out);
      path.pop();
    }
    _ => {}
  }
}

fn at_path<'a>(v: &'a mut DV, path: &[usize]) -> &'a mut DV {
  let mut cur = v;
  for &i in path {
    cur = match cur {
      DV::Map(m) => &mut m[i].1,
      DV::Array(a) => &mut a[i],
      DV::Tag(_, x) => &mut **x,
      _ => unreachable!(),
    };
  }
  cur
}

fn perms(n: usize, rng: &mut Rng) -> Vec<Vec<usize>> {
  if n <= 4 {
    let mut out = vec![];
    let mut p: Vec<usize> = (0..n).collect();
    fn heap(k: usize, p: &mut Vec<usize>, out: &mut Vec<Vec<usize>>) {
      if k == 1 {
        out.push(p.clone());
        return;
      }
      for i in 0..k {
        heap(k - 1, p, out);
        if k % 2 == 0 {
          p.swap(i, k - 1);
        } else {
          p.swap(0, k - 1);
        }
      }
    }
    heap(n, &mut p, &mut out);
    out
  } else {
    (0..12)
      .map(|_| {
        let mut p: Vec<usize> = (0..n).collect();
        rng.shuffle(&mut p);
        p
      })
      .collect()
  }
}

fn permuted(v: &DV, path: &[usize], p: &[usize]) -> DV {
  let mut c = v.clone();
  if let DV::Map(m) = at_path(&mut c, path) {
    let old = m.clone();
    for (i, &j) in p.iter().enumerate() {
      m[i] = old[j].clone();
    }
  }
  c
}

/// reverse the members of the k-th schema map group choice whose keys are distinct literals
fn permute_schema(g: &GS, k: usize) -> Option<GS> {
  use std::cell::Cell;
  let disjoint = |c: &GChoice| {
    if c.entries.len() < 2 {
      return false;
    }
    let mut keys: Vec<String> = vec![];
    for e in &c.entries {
      match e {
        GEntry::Val { key: Some(GKey::Bare(n)), .. } => keys.push(format!("t:{:?}", n)),
        GEntry::Val { key: Some(GKey::Value(l)), .. } => keys.push(match l.value() {
          GLit::Text(s) => format!("t:{:?}", s),
          x => format!("{:?}", x),
        }),
        _ => return false,
      }
    }
    let n = keys.len();
    keys.sort();
    keys.dedup();
    keys.len() == n
  };
  let total = {
    let c = Cell::new(0usize);
    let mut tmp = g.clone();
    let mut t2 = |x: &mut GType2| {
      if let GType2::Map(gr) = x {
        for ch in &gr.choices {
          if disjoint(ch) {
            c.set(c.get() + 1);
          }
        }
      }
    };
    let mut t1f = |_: &mut GType1| {};
    let mut en = |_: &mut GEntry| {};
    VisitMut { t2: &mut t2, t1: &mut t1f, entry: &mut en }.gs(&mut tmp);
    c.get()
  };
  if total == 0 {
    return None;
  }
  let target = k % total;
  let cnt = Cell::new(0usize);
  let mut out = g.clone();
  {
    let mut t2 = |x: &mut GType2| {
      if let GType2::Map(gr) = x {
        for ch in &mut gr.choices {
          if disjoint(ch) {
            if cnt.get() == target {
              if k % 2 == 0 {
                ch.entries.reverse();
              } else {
                ch.entries.rotate_left(1);
              }
            }
            cnt.set(cnt.get() + 1);
          }
        }
      }
    };
    let mut t1f = |_: &mut GType1| {};
    let mut en = |_: &mut GEntry| {};
    VisitMut { t2: &mut t2, t1: &mut t1f, entry: &mut en }.gs(&mut out);
  }
  Some(out)
}

fn run(ctx: &mut Ctx, idx: u64) {
  let mut rng = ctx.rng.clone();
  let cbor = idx % 2 == 1;
  let mut prof = Profile::core(cbor);
  prof.max_depth = 3;
  let mix = rng.bool();
  // cases 8, 9 of every ten take the next schema of the hand-written interaction corpus (JSON / CBOR)
  let trees = crate::corpus::trees_for(cbor);
  let from_corpus = idx % 10 >= 8 && !trees.is_empty();
  let g = if from_corpus {
    ctx.count("schemas_from_corpus");
    trees[(idx / 10) as usize % trees.len()].clone()
  } else {
    let mut gen = Gen::new(&mut rng, prof);
    gen.allow_any_hash = false;
    gen.allow_paren_key = false;
    gen.allow_bare_group_rule = false;
    // maps are the subject: tables, mixes and group choices are on more often than in C01
    gen.f.tables = true;
    gen.f.table_mix = mix;
    gen.schema()
  };
  let _ = gen_schema;
  if !gs::wellformed(&g) {
    return;
  }
  let st = vcore::schema_text(&g);
  let docs = gen_docs(&g, &mut rng, !cbor, 8);
  let vname = if cbor { "cbor" } else { "json" };
  for (v, _) in &docs {
    // (1) document permutations
    let mut paths = vec![];
    map_paths(v, &mut vec![], &mut paths);
    if let Some(base) = verdict(cbor, &st, v) {
      let mut ran = 0;
      for (path, n) in paths.iter().take(3) {
        for p in perms(*n, &mut rng) {
          if p.iter().enumerate().all(|(i, j)| i == *j) {
            continue;
          }
          let w = permuted(v, path, &p);
          ctx.eval();
          ctx.count("doc_permutations");
          ran += 1;
          match verdict(cbor, &st, &w) {
            Some(x) if x == base => ctx.count("doc_permutation_same"),
            Some(x) => {
              let dir = format!("doc-permutation/{}", vname);
              // shrink: the same permutation index pattern cannot be kept; use "reverse the first map with >= 2 entries"
              let differs = |cg: &GS, cv: &DV| -> bool {
                if (!cbor && !cv.is_json()) || !gs::wellformed(cg) {
                  return false;
                }
                let mut ps = vec![];
                map_paths(cv, &mut vec![], &mut ps);
                let s2 = vcore::schema_text(cg);
                let b0 = match verdict(cbor, &s2, cv) {
                  Some(b) => b,
                  None => return false,
                };
                for (pp, nn) in ps.iter().take(3) {
                  let rev: Vec<usize> = (0..*nn).rev().collect();
                  let rot: Vec<usize> = (0..*nn).map(|i| (i + 1) % nn).collect();
                  for q in [rev, rot] {
                    if let Some(y) = verdict(cbor, &s2, &permuted(cv, pp, &q)) {
                      if y != b0 {
                        return true;
                      }
                    }
                  }
                }
                false
              };
              let score = |cg: &GS, cv: &DV| ctx.known_score(&vcore::sig_of(&dir, cg, cv));
              let (sg, sv) = if differs(&g, v) { vcore::shrink_pair(&g, v, 2500, &mut |a, b| differs(a, b), &score) } else { (g.clone(), v.clone()) };
              // what RFC 8610 says about the shrunk document: a valid map rejected in one order and an
              // invalid map accepted in one order are different observations
              let m = vcore::model(&sg, &sv, !cbor);
              let sig = vcore::sig_of(&format!("{}/{}", dir, match m { Tri::Acc => "valid", Tri::Rej => "invalid", _ => "unspecified" }), &sg, &sv);
              ctx.report(&sig, json!({"schema": st, "document": v.diag(), "permuted": w.diag(), "verdict": base, "verdict_permuted": x, "shrunk_schema": vcore::schema_text(&sg), "shrunk_json": sv.diag(), "rfc_model_on_shrunk": m.name()}));
              break;
            }
            None => ctx.count("no_verdict_skipped"),
          }
        }
      }
      if ran >= 1 {
        ctx.nontrivial(hash_str(&format!("{}\u{0}{}", st, v.diag())));
        ctx.sample("doc-permutation", 2, || json!({"schema": st, "document": v.diag(), "orders_run": ran + 1, "verdict": base}));
      }
      // (2) schema member permutation
      let k = rng.usize(100);
      if let Some(g2) = permute_schema(&g, k) {
        if g2 != g {
          ctx.eval();
          ctx.count("schema_permutations");
          match verdict(cbor, &vcore::schema_text(&g2), v) {
            Some(x) if x == base => ctx.count("schema_permutation_same"),
            Some(x) => {
              let dir = format!("schema-permutation/{}", vname);
              let differs = |cg: &GS, cv: &DV| -> bool {
                if (!cbor && !cv.is_json()) || !gs::wellformed(cg) {
                  return false;
                }
                match permute_schema(cg, k) {
                  Some(c2) => matches!((verdict(cbor, &vcore::schema_text(cg), cv), verdict(cbor, &vcore::schema_text(&c2), cv)), (Some(a), Some(b)) if a != b),
                  None => false,
                }
              };
              let score = |cg: &GS, cv: &DV| ctx.known_score(&vcore::sig_of(&dir, cg, cv));
              let (sg, sv) = vcore::shrink_pair(&g, v, 2500, &mut |a, b| differs(a, b), &score);
              let sig = vcore::sig_of(&dir, &sg, &sv);
              ctx.report(&sig, json!({"schema": st, "permuted_schema": vcore::schema_text(&g2), "document": v.diag(), "verdict": base, "verdict_permuted_schema": x,
                "shrunk_schema": vcore::schema_text(&sg), "shrunk_json": sv.diag()}));
            }
            None => ctx.count("no_verdict_skipped"),
          }
        }
      }
    }
    // (3) duplicate keys (CBOR)
    if cbor && !paths.is_empty() || (cbor && matches!(v, DV::Map(m) if !m.is_empty())) {
      let mut w = v.clone();
      let mut ps = vec![];
      map_paths(&w, &mut vec![], &mut ps);
      let path = ps.first().map(|x| x.0.clone()).unwrap_or_default();
      if let DV::Map(m) = at_path(&mut w, &path) {
        if !m.is_empty() {
          let i = rng.usize(m.len());
          let mut pair = m[i].clone();
          if rng.bool() {
            pair.1 = DV::Int(rng.range(-3, 5) as i128);
          }
          let at = rng.usize(m.len() + 1);
          m.insert(at, pair);
        }
      }
      if w != *v {
        ctx.eval();
        ctx.count("duplicate_cases");
        let mut e = Eval::new(&g, false);
        e.dup_keys_decided = true;
        let m = e.root(&w);
        let bytes = {
          let mut r = Rng::new(0);
          dv::encode(&w, &dv::CANON, &mut r)
        };
        if let (Some(i), true) = (vcore::impl_cbor_bytes(&st, &bytes), m != Tri::Unspec) {
          if i == (m == Tri::Acc) {
            ctx.count("duplicate_agree");
          } else if !i {
            // rejecting a map with duplicate keys that an assignment could cover is stricter than
            // the property requires (it only forbids accepting pairs nobody accounts for)
            ctx.count("duplicate_rejected_although_assignable_not_judged");
          } else {
            let dir = if i { "dup-keys/false-accept" } else { "dup-keys/false-reject" };
            let want = i;
            let score = |cg: &GS, cv: &DV| ctx.known_score(&vcore::sig_of(dir, cg, cv));
            let (sg, sv) = vcore::shrink_pair(
              &g,
              &w,
              2500,
              &mut |cg, cv| {
                if !gs::wellformed(cg) || !vcore::value_tags(cv).contains("v.map.dupkey") {
                  return false;
                }
                let mut e2 = Eval::new(cg, false);
                e2.dup_keys_decided = true;
                let mm = e2.root(cv);
                if mm == Tri::Unspec || (mm == Tri::Acc) == want {
                  return false;
                }
                let mut r = Rng::new(0);
                vcore::impl_cbor_bytes(&vcore::schema_text(cg), &dv::encode(cv, &dv::CANON, &mut r)) == Some(want)
              },
              &score,
            );
            let sig = vcore::sig_of(dir, &sg, &sv);
            ctx.report(&sig, json!({"schema": st, "document": w.diag(), "model": m.name(), "implementation": i, "shrunk_schema": vcore::schema_text(&sg), "shrunk_json": sv.diag()}));
          }
        }
      }
    }
  }
}
