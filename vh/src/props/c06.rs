//! C06 — formatting a parsed document preserves its meaning and is idempotent.
//!
//! For an accepted text D: T1 = parse(D).to_string(); events: (1) parse(T1) fails,
//! (2) Skel(parse(T1)) != Skel(parse(D)), (3) parse(T1).to_string() != T1.
//! The parser is the observer of the printer; Skel compares literal kind and value
//! (floats by bits), markers, bounds, sockets, operators, generic arguments, tag numbers.

use crate::corpus;
use crate::gs::{self, Gen, Printer, Profile, Style, GS};
use crate::synx::{self, Mode, Repair};
use crate::rng::hash_str;
use crate::skel;
use crate::sup::{default_shards, guard, Ctx, PropDef, Summary, Tier};
use serde_json::json;

pub static DEF: PropDef = PropDef {
  id: "C06",
  level: "exploration",
  cases,
  run,
  stack_mb: 64,
  case_cpu_s: 60.0,
  crash_is_event: false,
  rule: "Documents D: (a) generated derivations over the whole grammar printed with random layout, without and with comments (group sizes straddle the formatter's layout thresholds at 2/3 choices and 3/4 entries), (b) the repository's fixtures and seed schemas, whole and rule-sliced. For each accepted D: T1 = Display(parse(D)); T1 must parse, Skel(parse(T1)) must equal Skel(parse(D)) (comments and spans projected away), and Display(parse(T1)) must equal T1. A disagreement on a generated document is shrunk on the derivation tree before its signature (kind + first differing skeleton token or construct tags of the shrunk document) is looked up in known_findings.json. Non-trivial = accepted D with >= 3 construct tags (generated) or >= 2 rules (corpus); distinct by text hash.",
  assumptions: &[
    "the crate's parser is trusted as the observer of the printer's output (C03 checks the parser against the derivation)",
    "attachment points of comments are not compared (the property allows them to move); C16 checks comment survival",
  ],
  required,
  post: None,
  shards: default_shards,
};

fn cases(t: Tier) -> u64 {
  match t {
    Tier::Quick => 8_000,
    Tier::Thorough => 50_000,
  }
}

fn required(s: &Summary) -> Option<String> {
  if s.c("accepted_docs") < 2000 {
    return Some(format!("only {} accepted documents", s.c("accepted_docs")));
  }
  None
}

#[derive(Debug, Clone, PartialEq)]
pub enum Out {
  Rejected,
  Held,
  /// (kind, detail-signature, T1)
  Bad(&'static str, String, String),
  Panic(String),
}

/// the three C06 observations on one text
pub fn roundtrip(text: &str) -> Out {
  let r = guard(|| {
    let a = match cddl::cddl_from_str(text, false) {
      Ok(a) => a,
      Err(_) => return Out::Rejected,
    };
    let s0 = skel::skel_ast(&a);
    let t1 = a.to_string();
    let b = match cddl::cddl_from_str(&t1, false) {
      Ok(b) => b,
      Err(e) => return Out::Bad("reparse-fail", e.chars().take(200).collect(), t1),
    };
    let s1 = skel::skel_ast(&b);
    if let Some((_, w, o)) = skel::first_diff(&s0, &s1) {
      return Out::Bad("skel", skel::diff_sig(&w, &o), t1);
    }
    let t2 = b.to_string();
    if t2 != t1 {
      return Out::Bad("nonidem", String::new(), t1);
    }
    Out::Held
  });
  match r {
    Ok(o) => o,
    Err(p) => Out::Panic(p),
  }
}

/// None = the three C06 observations hold (or the text is rejected / panics: not C06's business)
pub fn classify(text: &str, _g: &GS) -> Option<String> {
  match roundtrip(text) {
    Out::Bad("skel", d, _) => Some(format!("skel:{}", d)),
    Out::Bad(k, _, _) => Some(k.to_string()),
    _ => None,
  }
}

fn nop_t1(_: &mut gs::GType1) {}
fn nop_e(_: &mut gs::GEntry) {}

fn rep_any_hash(g: &GS) -> GS {
  gs::rewrite(
    g,
    &mut |t| {
      if *t == gs::GType2::Any {
        *t = gs::name("any");
      }
    },
    &mut nop_t1,
    &mut nop_e,
  )
}

fn rep_major(g: &GS) -> GS {
  gs::rewrite(
    g,
    &mut |t| {
      if let gs::GType2::Major(..) = t {
        *t = gs::name("uint");
      }
    },
    &mut nop_t1,
    &mut nop_e,
  )
}

/// Labelled deviations (see synx): the formatter never writes commas, so the parser's
/// '#'-followed-by-white-space deviations (C03-hash-any-ws) surface here as well.
pub const REPAIRS: &[(&str, Repair)] = &[("nocomma-hash-any-before-paren-or-digit", rep_any_hash), ("nocomma-hash-major-before-paren", rep_major)];

fn check_gs(ctx: &mut Ctx, g: &GS, text: &str, style: &Style, pseed: u64) {
  ctx.eval();
  let tags = gs::tags(g);
  let with_comments = style.comment_pct > 0;
  match roundtrip(text) {
    Out::Rejected => ctx.count("rejected_docs_skipped"),
    Out::Panic(p) => {
      ctx.count("panics_left_to_C05");
      ctx.note(format!("panic (C05 owns this): {}", crate::api::norm_panic(&p)));
    }
    Out::Held => {
      ctx.count("accepted_docs");
      ctx.count("held");
      for t in &tags {
        ctx.count(&format!("tag:{}", t));
      }
      if tags.len() >= 3 {
        ctx.nontrivial(hash_str(text));
      }
      ctx.sample(if with_comments { "generated+comments" } else { "generated" }, 2, || json!({"D": text, "tags": tags}));
    }
    Out::Bad(kind, d, t1) => {
      ctx.count("accepted_docs");
      ctx.count(&format!("bad:{}", kind));
      // comment-free renderings first; if none of them reproduces the observation and the
      // document has comments, the comments are what matters
      let plain_modes = [Mode::Plain, Mode::NoComma, Mode::Spell(ctx.idx), Mode::NoCommaSpell(ctx.idx), Mode::Orig(Style { comment_pct: 0, ..style.clone() }, pseed)];
      let class0 = classify(text, g).unwrap_or_default();
      let reproduced_without_comments = plain_modes.iter().any(|m| classify(&synx::render(g, m), g).as_deref() == Some(class0.as_str()));
      if with_comments && !reproduced_without_comments {
        ctx.report(&format!("comments:{}", kind), json!({"D": text, "T1": t1, "kind": kind, "detail": d}));
        // the comment-free rendering may disagree in its own way: judge it separately
        let nc_mode = Mode::Orig(Style { comment_pct: 0, ..style.clone() }, pseed);
        let t_nc = synx::render(g, &nc_mode);
        if classify(&t_nc, g).is_some() {
          if let Some(o) = synx::pipeline(g, &t_nc, ctx.idx, &plain_modes, &classify, &|c| c.split(':').next().unwrap_or(c).to_string(), REPAIRS, 1500) {
            for sig in &o.sigs {
              ctx.report(sig, json!({"D": t_nc, "kind": kind, "shrunk_D": o.shrunk_text, "mode": format!("{:?}", o.mode), "labels": o.labels}));
            }
          }
        }
        return;
      }
      let mut modes = plain_modes.to_vec();
      modes.push(Mode::Orig(style.clone(), pseed));
      if let Some(o) = synx::pipeline(g, text, ctx.idx, &modes, &classify, &|c| c.split(':').next().unwrap_or(c).to_string(), REPAIRS, 1500) {
        let st1 = cddl::cddl_from_str(&o.shrunk_text, false).map(|a| a.to_string()).unwrap_or_default();
        for sig in &o.sigs {
          ctx.report(sig, json!({"D": text, "T1": t1, "kind": kind, "detail": d, "shrunk_D": o.shrunk_text, "shrunk_T1": st1, "mode": format!("{:?}", o.mode), "labels": o.labels}));
        }
      }
    }
  }
}

fn check_text(ctx: &mut Ctx, origin: &str, text: &str) {
  ctx.eval();
  match roundtrip(text) {
    Out::Rejected => ctx.count("rejected_docs_skipped"),
    Out::Panic(p) => {
      ctx.count("panics_left_to_C05");
      ctx.note(format!("panic (C05 owns this): {}", crate::api::norm_panic(&p)));
    }
    Out::Held => {
      ctx.count("accepted_docs");
      ctx.count("held");
      ctx.count("corpus_docs_held");
      if text.lines().count() >= 2 {
        ctx.nontrivial(hash_str(text));
      }
    }
    Out::Bad(kind, d, t1) => {
      ctx.count("accepted_docs");
      ctx.count(&format!("bad:{}", kind));
      // shrink by dropping lines while the same observation remains
      let same = |t: &str| matches!(roundtrip(t), Out::Bad(k, d2, _) if k == kind && (kind != "skel" || d2 == d));
      let mut lines: Vec<String> = text.lines().map(|l| l.to_string()).collect();
      let mut budget = 300;
      let mut i = 0;
      while i < lines.len() && budget > 0 {
        let mut c = lines.clone();
        c.remove(i);
        budget -= 1;
        let t = c.join("\n") + "\n";
        if same(&t) {
          lines = c;
        } else {
          i += 1;
        }
      }
      let small = lines.join("\n") + "\n";
      // comments are what matters when the same document without its comments holds
      let nc = strip_comments(&small);
      let sig = if nc != small && matches!(roundtrip(&nc), Out::Held) {
        format!("comments:{}", kind)
      } else {
        match kind {
          "skel" => format!("skel:{}", d),
          k => format!("{}:corpus", k),
        }
      };
      ctx.report(&sig, json!({"origin": origin, "D_shrunk": small, "T1": t1.chars().take(600).collect::<String>(), "kind": kind, "detail": d}));
    }
  }
}

/// remove every comment (from ';' outside a text or byte string literal to the end of the line)
pub fn strip_comments(t: &str) -> String {
  let mut o = String::new();
  let mut it = t.chars().peekable();
  let mut q: Option<char> = None;
  while let Some(c) = it.next() {
    match q {
      Some(qc) => {
        o.push(c);
        if c == '\\' {
          if let Some(n) = it.next() {
            o.push(n);
          }
        } else if c == qc {
          q = None;
        }
      }
      None => match c {
        '"' | '\'' => {
          q = Some(c);
          o.push(c);
        }
        ';' => {
          while let Some(&n) = it.peek() {
            if n == '\n' {
              break;
            }
            it.next();
          }
        }
        _ => o.push(c),
      },
    }
  }
  o
}

pub fn gen_doc(rng: &mut crate::rng::Rng, profile: Profile, comments: bool) -> (GS, String) {
  let g = {
    let mut gen = Gen::new(rng, profile);
    gen.schema()
  };
  let style = Style::random(rng, comments);
  let text = {
    let mut p = Printer::new(rng, style);
    p.doc(&g);
    p.out
  };
  (g, text)
}

fn run(ctx: &mut Ctx, idx: u64) {
  let mut rng = ctx.rng.clone();
  match idx % 8 {
    0..=6 => {
      let g = {
        let mut gen = Gen::new(&mut rng, Profile::syntax());
        gen.schema()
      };
      let style = Style::random(&mut rng, idx % 8 >= 5);
      let pseed = rng.next_u64();
      let text = synx::render(&g, &Mode::Orig(style.clone(), pseed));
      check_gs(ctx, &g, &text, &style, pseed);
    }
    _ => {
      let corp = corpus::schemas();
      let i = rng.usize(corp.len());
      let mut t = corp[i].clone();
      if rng.bool() {
        // a slice of rules: cut at lines that start a rule (no leading white space)
        let lines: Vec<&str> = t.lines().collect();
        let starts: Vec<usize> = (0..lines.len()).filter(|i| lines[*i].chars().next().map(|c| !c.is_whitespace() && c != ';').unwrap_or(false)).collect();
        if starts.len() > 2 {
          let a = rng.usize(starts.len() - 1);
          let b = (a + 1 + rng.usize(6)).min(starts.len() - 1);
          t = lines[starts[a]..starts[b]].join("\n") + "\n";
        }
      }
      check_text(ctx, &format!("corpus[{}]", i), &t);
    }
  }
}
