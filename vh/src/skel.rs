//! Skel: projection of the crate's public AST, and of harness-side GSchema
//! trees, to one canonical S-expression text that drops spans and comments.
//! "The AST mirrors the derivation" is `skel_ast(parse(print(g))) == skel_gs(g)`.

use crate::gs::*;
use cddl::ast as A;
use cddl::token::{ByteValue, SocketPlug, TagConstraint, Value};

fn hexs(b: &[u8]) -> String {
  crate::dv::hex(b)
}

fn q(s: &str) -> String {
  format!("{:?}", s)
}

// ---------------------------------------------------------------------------
// GSchema side

fn gl(l: &GLit) -> String {
  match l {
    GLit::Raw(_, v) => gl(v),
    GLit::Uint(n) => format!("u:{}", n),
    GLit::Nint(n) => format!("i:{}", n),
    GLit::Float(f) => format!("f:{:016x}", f.to_bits()),
    GLit::Text(s) => format!("t:{}", q(s)),
    GLit::Bytes(BK::Utf8, b) => format!("b8:{}", hexs(b)),
    GLit::Bytes(BK::Hex, b) => format!("b16:{}", hexs(b)),
    GLit::Bytes(BK::B64, b) => format!("b64:{}", hexs(b)),
  }
}

fn gargs(a: &[GType1]) -> String {
  if a.is_empty() {
    String::new()
  } else {
    format!(" <{}>", a.iter().map(g1).collect::<Vec<_>>().join(" "))
  }
}

fn gtagc(c: &Option<GTagC>) -> String {
  match c {
    None => "-".into(),
    Some(GTagC::Lit(n)) => format!("{}", n),
    Some(GTagC::Type(t)) => format!("<{}>", t),
  }
}

pub fn g2(t: &GType2) -> String {
  match t {
    GType2::Lit(l) => gl(l),
    GType2::Name(n, a) => format!("(n {}{})", n, gargs(a)),
    GType2::Paren(t) => format!("(paren {})", gt(t)),
    GType2::Map(g) => format!("(map {})", gg(g)),
    GType2::Array(g) => format!("(arr {})", gg(g)),
    GType2::Unwrap(n, a) => format!("(~ {}{})", n, gargs(a)),
    GType2::EnumInline(g) => format!("(&g {})", gg(g)),
    GType2::EnumName(n, a) => format!("(&n {}{})", n, gargs(a)),
    GType2::Tag(c, t) => format!("(tag {} {})", gtagc(c), gt(t)),
    GType2::Major(m, c) => format!("(# {} {})", m, gtagc(c)),
    GType2::Any => "#".into(),
  }
}

pub fn g1(t: &GType1) -> String {
  match &t.op {
    None => g2(&t.t2),
    Some((GOp::Range { incl }, r)) => format!("(op {} {} {})", if *incl { ".." } else { "..." }, g2(&t.t2), g2(r)),
    Some((GOp::Ctl(c), r)) => format!("(op .{} {} {})", c, g2(&t.t2), g2(r)),
  }
}

pub fn gt(t: &GType) -> String {
  format!("(/ {})", t.choices.iter().map(g1).collect::<Vec<_>>().join(" "))
}

fn gocc(o: &Option<GOcc>) -> String {
  match o {
    None => "-".into(),
    Some(GOcc::Opt) => "?".into(),
    Some(GOcc::Star) => "*".into(),
    Some(GOcc::Plus) => "+".into(),
    Some(GOcc::Range(l, u)) => format!("{}*{}", l.map(|x| x.to_string()).unwrap_or_default(), u.map(|x| x.to_string()).unwrap_or_default()),
  }
}

pub fn ge(e: &GEntry) -> String {
  match e {
    GEntry::Val { occ, key, ty } => {
      // a keyless entry that is a lone name is a TypeGroupname entry for the parser
      if key.is_none() {
        if let Some(GType1 { t2: GType2::Name(n, a), op: None }) = ty.single() {
          return format!("(en {} {}{})", gocc(occ), n, gargs(a));
        }
      }
      let k = match key {
        None => "-".into(),
        Some(GKey::Bare(n)) => format!("(kb {})", n),
        Some(GKey::Value(l)) => format!("(kv {})", gl(l)),
        Some(GKey::Type1 { t1, cut }) => format!("(k1 {} {})", if *cut { "^" } else { "-" }, g1(t1)),
      };
      format!("(e {} {} {})", gocc(occ), k, gt(ty))
    }
    GEntry::Name { occ, name, args } => format!("(en {} {}{})", gocc(occ), name, gargs(args)),
    GEntry::Inline { occ, group } => format!("(eg {} {})", gocc(occ), gg(group)),
  }
}

pub fn gg(g: &GGroup) -> String {
  format!(
    "(// {})",
    g.choices.iter().map(|c| format!("(gc{})", c.entries.iter().map(|e| format!(" {}", ge(e))).collect::<String>())).collect::<Vec<_>>().join(" ")
  )
}

pub fn grule(r: &GRule) -> String {
  let op = match r.assign {
    Assign::Eq => "=",
    Assign::TypeAlt => "/=",
    Assign::GroupAlt => "//=",
  };
  let params = if r.params.is_empty() { String::new() } else { format!(" <{}>", r.params.join(" ")) };
  match &r.body {
    GBody::Type(t) => format!("(type {}{} {} {})", r.name, params, op, gt(t)),
    GBody::Group(e) => format!("(group {}{} {} {})", r.name, params, op, ge(e)),
  }
}

pub fn skel_gs(g: &GS) -> Vec<String> {
  g.rules.iter().map(grule).collect()
}

// ---------------------------------------------------------------------------
// AST side

pub fn ident(i: &A::Identifier) -> String {
  match i.socket {
    Some(SocketPlug::TYPE) => format!("${}", i.ident),
    Some(SocketPlug::GROUP) => format!("$${}", i.ident),
    None => i.ident.to_string(),
  }
}

fn aargs(a: &Option<A::GenericArgs>) -> String {
  match a {
    None => String::new(),
    Some(ga) => format!(" <{}>", ga.args.iter().map(|x| a1(&x.arg)).collect::<Vec<_>>().join(" ")),
  }
}

fn atagc(c: &Option<TagConstraint>) -> String {
  match c {
    None => "-".into(),
    Some(TagConstraint::Literal(n)) => format!("{}", n),
    Some(TagConstraint::Type(t)) => format!("<{}>", t),
  }
}

pub fn a2(t: &A::Type2) -> String {
  use A::Type2::*;
  match t {
    IntValue { value, .. } => format!("i:{}", value),
    UintValue { value, .. } => format!("u:{}", value),
    FloatValue { value, .. } => format!("f:{:016x}", value.to_bits()),
    TextValue { value, .. } => format!("t:{}", q(value)),
    UTF8ByteString { value, .. } => format!("b8:{}", hexs(value)),
    B16ByteString { value, .. } => format!("b16:{}", hexs(value)),
    B64ByteString { value, .. } => format!("b64:{}", hexs(value)),
    Typename { ident: i, generic_args, .. } => format!("(n {}{})", ident(i), aargs(generic_args)),
    ParenthesizedType { pt, .. } => format!("(paren {})", at(pt)),
    Map { group, .. } => format!("(map {})", ag(group)),
    Array { group, .. } => format!("(arr {})", ag(group)),
    Unwrap { ident: i, generic_args, .. } => format!("(~ {}{})", ident(i), aargs(generic_args)),
    ChoiceFromInlineGroup { group, .. } => format!("(&g {})", ag(group)),
    ChoiceFromGroup { ident: i, generic_args, .. } => format!("(&n {}{})", ident(i), aargs(generic_args)),
    TaggedData { tag, t, .. } => format!("(tag {} {})", atagc(tag), at(t)),
    DataMajorType { mt, constraint, .. } => format!("(# {} {})", mt, atagc(constraint)),
    Any { .. } => "#".into(),
  }
}

pub fn a1(t: &A::Type1) -> String {
  match &t.operator {
    None => a2(&t.type2),
    Some(o) => {
      let op = match &o.operator {
        A::RangeCtlOp::RangeOp { is_inclusive, .. } => {
          if *is_inclusive {
            "..".to_string()
          } else {
            "...".to_string()
          }
        }
        A::RangeCtlOp::CtlOp { ctrl, .. } => format!("{}", ctrl),
      };
      format!("(op {} {} {})", op, a2(&t.type2), a2(&o.type2))
    }
  }
}

pub fn at(t: &A::Type) -> String {
  format!("(/ {})", t.type_choices.iter().map(|c| a1(&c.type1)).collect::<Vec<_>>().join(" "))
}

fn aocc(o: &Option<A::Occurrence>) -> String {
  match o {
    None => "-".into(),
    Some(o) => match o.occur {
      A::Occur::Optional { .. } => "?".into(),
      A::Occur::ZeroOrMore { .. } => "*".into(),
      A::Occur::OneOrMore { .. } => "+".into(),
      A::Occur::Exact { lower, upper, .. } => {
        format!("{}*{}", lower.map(|x| x.to_string()).unwrap_or_default(), upper.map(|x| x.to_string()).unwrap_or_default())
      }
    },
  }
}

fn aval(v: &Value) -> String {
  match v {
    Value::INT(i) => format!("i:{}", i),
    Value::UINT(u) => format!("u:{}", u),
    Value::FLOAT(f) => format!("f:{:016x}", f.to_bits()),
    Value::TEXT(t) => format!("t:{}", q(t)),
    Value::BYTE(ByteValue::UTF8(b)) => format!("b8:{}", hexs(b)),
    Value::BYTE(ByteValue::B16(b)) => format!("b16:{}", hexs(b)),
    Value::BYTE(ByteValue::B64(b)) => format!("b64:{}", hexs(b)),
  }
}

pub fn ae(e: &A::GroupEntry) -> String {
  match e {
    A::GroupEntry::ValueMemberKey { ge, .. } => {
      let k = match &ge.member_key {
        None => "-".into(),
        Some(A::MemberKey::Bareword { ident: i, .. }) => format!("(kb {})", ident(i)),
        Some(A::MemberKey::Value { value, .. }) => format!("(kv {})", aval(value)),
        Some(A::MemberKey::Type1 { t1, is_cut, .. }) => format!("(k1 {} {})", if *is_cut { "^" } else { "-" }, a1(t1)),
        Some(A::MemberKey::NonMemberKey { non_member_key, .. }) => match non_member_key {
          A::NonMemberKey::Group(g) => format!("(knm-group {})", ag(g)),
          A::NonMemberKey::Type(t) => format!("(knm-type {})", at(t)),
        },
      };
      format!("(e {} {} {})", aocc(&ge.occur), k, at(&ge.entry_type))
    }
    A::GroupEntry::TypeGroupname { ge, .. } => format!("(en {} {}{})", aocc(&ge.occur), ident(&ge.name), aargs(&ge.generic_args)),
    A::GroupEntry::InlineGroup { occur, group, .. } => format!("(eg {} {})", aocc(occur), ag(group)),
  }
}

pub fn ag(g: &A::Group) -> String {
  format!(
    "(// {})",
    g.group_choices
      .iter()
      .map(|c| format!("(gc{})", c.group_entries.iter().map(|(e, _)| format!(" {}", ae(e))).collect::<String>()))
      .collect::<Vec<_>>()
      .join(" ")
  )
}

pub fn arule(r: &A::Rule) -> String {
  match r {
    A::Rule::Type { rule, .. } => {
      let params = match &rule.generic_params {
        None => String::new(),
        Some(p) => format!(" <{}>", p.params.iter().map(|x| ident(&x.param)).collect::<Vec<_>>().join(" ")),
      };
      format!("(type {}{} {} {})", ident(&rule.name), params, if rule.is_type_choice_alternate { "/=" } else { "=" }, at(&rule.value))
    }
    A::Rule::Group { rule, .. } => {
      let params = match &rule.generic_params {
        None => String::new(),
        Some(p) => format!(" <{}>", p.params.iter().map(|x| ident(&x.param)).collect::<Vec<_>>().join(" ")),
      };
      format!("(group {}{} {} {})", ident(&rule.name), params, if rule.is_group_choice_alternate { "//=" } else { "=" }, ae(&rule.entry))
    }
  }
}

pub fn skel_ast(c: &A::CDDL) -> Vec<String> {
  c.rules.iter().map(arule).collect()
}

/// first differing rule, for reports
pub fn first_diff(a: &[String], b: &[String]) -> Option<(usize, String, String)> {
  for i in 0..a.len().max(b.len()) {
    let x = a.get(i).cloned().unwrap_or_else(|| "<missing>".into());
    let y = b.get(i).cloned().unwrap_or_else(|| "<missing>".into());
    if x != y {
      return Some((i, x, y));
    }
  }
  None
}

fn toks(s: &str) -> Vec<String> {
  // split a skeleton into tokens: "(" + word, ")" and atoms; quoted strings stay whole
  let mut v = vec![];
  let mut cur = String::new();
  let mut in_q = false;
  let mut esc = false;
  for c in s.chars() {
    if in_q {
      cur.push(c);
      if esc {
        esc = false;
      } else if c == '\\' {
        esc = true;
      } else if c == '"' {
        in_q = false;
      }
      continue;
    }
    match c {
      '"' => {
        in_q = true;
        cur.push(c);
      }
      ' ' => {
        if !cur.is_empty() {
          v.push(std::mem::take(&mut cur));
        }
      }
      ')' => {
        if !cur.is_empty() {
          v.push(std::mem::take(&mut cur));
        }
        v.push(")".into());
      }
      _ => cur.push(c),
    }
  }
  if !cur.is_empty() {
    v.push(cur);
  }
  v
}

fn norm_tok(t: &str) -> String {
  if t.starts_with('(') || t == ")" {
    return t.to_string();
  }
  if let Some(p) = t.find(':') {
    if ["u", "i", "f", "t", "b8", "b16", "b64"].contains(&&t[..p]) {
      return format!("{}:", &t[..p]);
    }
  }
  if ["-", "?", "*", "+", "^", "=", "/=", "//=", "#", "..", "...", "<missing>"].contains(&t) {
    return t.to_string();
  }
  if t.starts_with('.') {
    return t.to_string();
  }
  if t.contains('*') && t.chars().all(|c| c.is_ascii_digit() || c == '*') {
    return "N*M".into();
  }
  if t.chars().all(|c| c.is_ascii_digit()) {
    return "N".into();
  }
  if t.starts_with('<') {
    return "<..>".into();
  }
  "NAME".into()
}

/// Coarse, seed-stable description of the first difference between an expected and an
/// observed skeleton: enclosing construct + normalised expected token + normalised observed token.
pub fn diff_sig(expected: &str, observed: &str) -> String {
  let (a, b) = (toks(expected), toks(observed));
  let mut ctx: Vec<&str> = vec![];
  for i in 0..a.len().max(b.len()) {
    let x = a.get(i).map(|s| s.as_str()).unwrap_or("<missing>");
    let y = b.get(i).map(|s| s.as_str()).unwrap_or("<missing>");
    if x != y {
      let (nx, ny) = (norm_tok(x), norm_tok(y));
      let detail = if nx == ny { format!("{}:value", nx) } else { format!("{}|{}", nx, ny) };
      return format!("in{}:{}", ctx.last().copied().unwrap_or("(top"), detail);
    }
    if x.starts_with('(') {
      ctx.push(x);
    } else if x == ")" {
      ctx.pop();
    }
  }
  "same".into()
}
