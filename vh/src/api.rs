//! Thin wrappers around the crate's public entry points, normalising results.

use crate::sup::guard;
use cddl::validator::{cbor as vc, json as vj};

#[derive(Clone, Debug, PartialEq)]
pub enum V {
  Ok,
  /// Err(Validation(list)) as (location, reason) pairs in order
  Invalid(Vec<(String, String)>),
  /// the schema was reported as unparsable
  Schema(String),
  /// the document was reported as unparsable
  Doc(String),
  Other(String),
}

impl V {
  pub fn is_ok(&self) -> bool {
    matches!(self, V::Ok)
  }
  pub fn is_invalid(&self) -> bool {
    matches!(self, V::Invalid(_))
  }
  pub fn short(&self) -> String {
    match self {
      V::Ok => "Ok".into(),
      V::Invalid(l) => format!(
        "Invalid[{}]{}",
        l.len(),
        l.first()
          .map(|(a, b)| format!(" {}: {}", a, b.chars().take(120).collect::<String>()))
          .unwrap_or_default()
      ),
      V::Schema(s) => format!("SchemaError({})", s.chars().take(80).collect::<String>()),
      V::Doc(s) => format!("DocError({})", s.chars().take(80).collect::<String>()),
      V::Other(s) => format!("Other({})", s.chars().take(80).collect::<String>()),
    }
  }
  pub fn kind(&self) -> &'static str {
    match self {
      V::Ok => "ok",
      V::Invalid(_) => "invalid",
      V::Schema(_) => "schema-error",
      V::Doc(_) => "doc-error",
      V::Other(_) => "other-error",
    }
  }
}

pub fn from_json_result(r: vj::Result) -> V {
  match r {
    Ok(()) => V::Ok,
    Err(vj::Error::Validation(l)) => V::Invalid(
      l.into_iter()
        .map(|e| (e.json_location, e.reason))
        .collect(),
    ),
    Err(vj::Error::CDDLParsing(s)) => V::Schema(s),
    Err(vj::Error::JSONParsing(e)) => V::Doc(e.to_string()),
    Err(e) => V::Other(e.to_string()),
  }
}

pub fn from_cbor_result(r: vc::Result<std::io::Error>) -> V {
  match r {
    Ok(()) => V::Ok,
    Err(vc::Error::Validation(l)) => V::Invalid(
      l.into_iter()
        .map(|e| (e.cbor_location, e.reason))
        .collect(),
    ),
    Err(vc::Error::CDDLParsing(s)) => V::Schema(s),
    Err(vc::Error::CBORParsing(e)) => V::Doc(e.to_string()),
    Err(e) => V::Other(e.to_string()),
  }
}

pub fn vjson(schema: &str, json: &str, feats: Option<&[&str]>) -> Result<V, String> {
  guard(|| from_json_result(cddl::validate_json_from_str(schema, json, feats)))
}

pub fn vcbor(schema: &str, bytes: &[u8], feats: Option<&[&str]>) -> Result<V, String> {
  guard(|| from_cbor_result(cddl::validate_cbor_from_slice(schema, bytes, feats)))
}

pub fn vcsv(
  schema: &str,
  csv: &str,
  header: Option<bool>,
  feats: Option<&[&str]>,
) -> Result<V, String> {
  use cddl::validator::csv_validator as cv;
  guard(|| match cddl::validate_csv_from_str(schema, csv, header, feats) {
    Ok(()) => V::Ok,
    Err(cv::Error::Validation(l)) => V::Invalid(
      l.into_iter()
        .map(|e| (e.json_location, e.reason))
        .collect(),
    ),
    Err(cv::Error::CDDLParsing(s)) => V::Schema(s),
    Err(cv::Error::CSVParsing(e)) => V::Doc(e.to_string()),
    Err(cv::Error::JSONValidation(e)) => from_json_result(Err(e)),
    Err(e) => V::Other(e.to_string()),
  })
}

/// Validate a JSON value against an already parsed schema (no re-parse of the schema)
pub fn vjson_ast(
  ast: &cddl::ast::CDDL,
  json: serde_json::Value,
  feats: Option<&[&str]>,
) -> Result<V, String> {
  guard(|| {
    let mut jv = vj::JSONValidator::new(ast, json, feats);
    use cddl::validator::Validator;
    from_json_result(jv.validate())
  })
}

pub fn vcbor_ast(
  ast: &cddl::ast::CDDL,
  v: cddl::validator::cbor_value::Value,
  feats: Option<&[&str]>,
) -> Result<V, String> {
  guard(|| {
    let mut cv = vc::CBORValidator::new(ast, v, feats);
    use cddl::validator::Validator;
    from_cbor_result(cv.validate())
  })
}

pub fn norm_panic(p: &str) -> String {
  // strip numbers (line numbers, values) so that the signature is input independent
  let mut s = String::new();
  let mut last_digit = false;
  for c in p.chars() {
    if c.is_ascii_digit() {
      if !last_digit {
        s.push('N');
      }
      last_digit = true;
    } else {
      last_digit = false;
      s.push(c);
    }
  }
  if s.len() > 160 {
    let mut cut = 160;
    while !s.is_char_boundary(cut) {
      cut -= 1;
    }
    // keep the location suffix
    if let Some(at) = s.rfind(" @ ") {
      let loc = s[at..].to_string();
      s.truncate(cut.min(at));
      s.push_str("...");
      s.push_str(&loc);
    } else {
      s.truncate(cut);
    }
  }
  s
}

pub fn thread_cpu_s() -> f64 {
  let mut ts = libc::timespec {
    tv_sec: 0,
    tv_nsec: 0,
  };
  unsafe {
    libc::clock_gettime(libc::CLOCK_THREAD_CPUTIME_ID, &mut ts);
  }
  ts.tv_sec as f64 + ts.tv_nsec as f64 * 1e-9
}
