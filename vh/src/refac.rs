//! Meaning-preserving refactorings of schema trees (C08) and operator/prelude
//! identities (C09). Every refactoring is a deterministic function of (schema, k).

use crate::gs::*;
use std::cell::Cell;

pub const KINDS: &[&str] = &["extract-type", "inline-rule", "generic-abstract", "generic-group-pair", "split-choice", "socket-choice", "parens", "rename", "add-unused-rules", "reorder-rules", "extract-group", "inline-group"];

fn fresh(g: &GS, base: &str) -> String {
  let mut i = 0;
  loop {
    let n = format!("{}{}", base, i);
    if !g.rules.iter().any(|r| r.name == n || r.params.contains(&n)) && !PRELUDE_ALL.contains(&n.as_str()) {
      return n;
    }
    i += 1;
  }
}

/// number of type2 nodes in rule bodies (candidate positions)
fn count_t2(g: &GS) -> usize {
  let n = Cell::new(0usize);
  let mut c = g.clone();
  {
    let mut t2 = |_: &mut GType2| n.set(n.get() + 1);
    let mut t1 = |_: &mut GType1| {};
    let mut en = |_: &mut GEntry| {};
    VisitMut { t2: &mut t2, t1: &mut t1, entry: &mut en }.gs(&mut c);
  }
  n.get()
}

/// does the type2 mention any of the names (generic parameters)?
fn mentions(t: &GType2, names: &[String]) -> bool {
  let hit = Cell::new(false);
  let mut g = GS { rules: vec![GRule { name: "_".into(), params: vec![], assign: Assign::Eq, body: GBody::Type(ty(t.clone())) }] };
  {
    let mut t2 = |x: &mut GType2| match x {
      GType2::Name(n, _) | GType2::Unwrap(n, _) | GType2::EnumName(n, _) => {
        if names.contains(n) {
          hit.set(true);
        }
      }
      _ => {}
    };
    let mut t1 = |_: &mut GType1| {};
    let mut en = |e: &mut GEntry| {
      if let GEntry::Name { name, .. } = e {
        if names.contains(name) {
          hit.set(true);
        }
      }
    };
    VisitMut { t2: &mut t2, t1: &mut t1, entry: &mut en }.gs(&mut g);
  }
  hit.get()
}

/// apply `f` to the k-th type2 node of rule `ri` (pre-order); returns whether it was applied
fn at_t2(g: &mut GS, k: usize, f: &mut dyn FnMut(&mut GType2, usize) -> bool) -> bool {
  let cnt = Cell::new(0usize);
  let done = Cell::new(false);
  let nrules = g.rules.len();
  for ri in 0..nrules {
    let mut one = GS { rules: vec![g.rules[ri].clone()] };
    {
      let mut t2 = |x: &mut GType2| {
        if !done.get() && cnt.get() == k {
          if f(x, ri) {
            done.set(true);
          }
        }
        cnt.set(cnt.get() + 1);
      };
      let mut t1 = |_: &mut GType1| {};
      let mut en = |_: &mut GEntry| {};
      VisitMut { t2: &mut t2, t1: &mut t1, entry: &mut en }.gs(&mut one);
    }
    g.rules[ri] = one.rules.remove(0);
    if done.get() {
      return true;
    }
  }
  false
}

fn is_trivial_leaf(t: &GType2) -> bool {
  matches!(t, GType2::Any)
}

/// Some(refactored schema) or None when the refactoring has no applicable position
pub fn apply(kind: &str, g: &GS, k: usize) -> Option<GS> {
  let n = count_t2(g);
  let mut out = g.clone();
  match kind {
    "extract-type" => {
      if n == 0 {
        return None;
      }
      let nm = fresh(g, "xt");
      let mut extracted: Option<(GType2, usize)> = None;
      // try positions k, k+1, ... until one is extractable (not mentioning generic parameters of its rule)
      for off in 0..n {
        let pos = (k + off) % n;
        let mut c = g.clone();
        let ok = at_t2(&mut c, pos, &mut |x, ri| {
          if is_trivial_leaf(x) || mentions(x, &g.rules[ri].params) {
            return false;
          }
          extracted = Some((x.clone(), ri));
          *x = name(&nm);
          true
        });
        if ok {
          out = c;
          break;
        }
      }
      let (body, _) = extracted?;
      out.rules.push(GRule { name: nm, params: vec![], assign: Assign::Eq, body: GBody::Type(ty(body)) });
      Some(out)
    }
    "inline-rule" => {
      // replace one reference to a non-generic, singly defined, non-recursive type rule by its parenthesised body
      let cands: Vec<usize> = (1..g.rules.len())
        .filter(|i| {
          let r = &g.rules[*i];
          matches!(r.body, GBody::Type(_))
            && r.params.is_empty()
            && !r.name.starts_with('$')
            && g.rules.iter().filter(|x| x.name == r.name).count() == 1
            && !mentions(&GType2::Paren(match &r.body { GBody::Type(t) => t.clone(), _ => unreachable!() }), &[r.name.clone()])
        })
        .collect();
      if cands.is_empty() {
        return None;
      }
      let ri = cands[k % cands.len()];
      let (nm, body) = match &g.rules[ri].body {
        GBody::Type(t) => (g.rules[ri].name.clone(), t.clone()),
        _ => return None,
      };
      let mut any = false;
      {
        let mut t2 = |x: &mut GType2| {
          if let GType2::Name(n2, a) = x {
            if *n2 == nm && a.is_empty() {
              *x = GType2::Paren(body.clone());
              any = true;
            }
          }
        };
        let mut t1 = |_: &mut GType1| {};
        let mut en = |_: &mut GEntry| {};
        VisitMut { t2: &mut t2, t1: &mut t1, entry: &mut en }.gs(&mut out);
      }
      if any {
        Some(out)
      } else {
        None
      }
    }
    "generic-abstract" => {
      // R = body[L]  ==>  R = Rg<L> ; Rg<p> = body[p]   (L = k-th leaf name/literal of a non-generic type rule)
      let cands: Vec<usize> = (0..g.rules.len()).filter(|i| matches!(g.rules[*i].body, GBody::Type(_)) && g.rules[*i].params.is_empty() && g.rules.iter().filter(|x| x.name == g.rules[*i].name).count() == 1).collect();
      if cands.is_empty() {
        return None;
      }
      let ri = cands[k % cands.len()];
      let p = fresh(g, "gp");
      let gname = fresh(g, "gx");
      let mut one = GS { rules: vec![g.rules[ri].clone()] };
      let nn = count_t2(&one);
      if nn == 0 {
        return None;
      }
      let mut arg: Option<GType2> = None;
      for off in 0..nn {
        let pos = (k / 7 + off) % nn;
        let mut c = one.clone();
        let ok = at_t2(&mut c, pos, &mut |x, _| {
          let leaf = matches!(x, GType2::Lit(_)) || matches!(x, GType2::Name(_, a) if a.is_empty());
          if !leaf {
            return false;
          }
          arg = Some(x.clone());
          *x = name(&p);
          true
        });
        if ok {
          one = c;
          break;
        }
      }
      let arg = arg?;
      let body = one.rules.remove(0).body;
      out.rules[ri].body = GBody::Type(ty(GType2::Name(gname.clone(), vec![t1(arg)])));
      out.rules.push(GRule { name: gname, params: vec![p], assign: Assign::Eq, body });
      Some(out)
    }
    "generic-group-pair" => {
      // in an array group choice with >= 2 keyless leaf entries: [.. T1 .. T2 ..] ==> [.. gg<T1> .. gg<T2> ..] ; gg<p> = ( p )
      let gname = fresh(g, "gg");
      let p = fresh(g, "gp");
      let done = Cell::new(false);
      let seen = Cell::new(0usize);
      {
        let mut t2 = |x: &mut GType2| {
          if done.get() {
            return;
          }
          if let GType2::Array(gr) = x {
            for ch in &mut gr.choices {
              let idx: Vec<usize> = (0..ch.entries.len())
                .filter(|i| matches!(&ch.entries[*i], GEntry::Val { key: None, ty, .. } if ty.choices.len() == 1 && ty.choices[0].op.is_none() && matches!(&ty.choices[0].t2, GType2::Lit(_) | GType2::Name(..))))
                .collect();
              if idx.len() >= 2 {
                if seen.get() == k % 3 || true {
                  for i in idx.iter().take(2) {
                    if let GEntry::Val { occ, ty, .. } = &ch.entries[*i] {
                      ch.entries[*i] = GEntry::Name { occ: occ.clone(), name: gname.clone(), args: vec![ty.choices[0].clone()] };
                    }
                  }
                  done.set(true);
                  return;
                }
                seen.set(seen.get() + 1);
              }
            }
          }
        };
        let mut t1f = |_: &mut GType1| {};
        let mut en = |_: &mut GEntry| {};
        VisitMut { t2: &mut t2, t1: &mut t1f, entry: &mut en }.gs(&mut out);
      }
      if !done.get() {
        return None;
      }
      out.rules.push(GRule {
        name: gname,
        params: vec![p.clone()],
        assign: Assign::Eq,
        body: GBody::Group(GEntry::Inline { occ: None, group: GGroup { choices: vec![GChoice { entries: vec![GEntry::Val { occ: None, key: None, ty: tname(&p) }, GEntry::Inline { occ: None, group: GGroup { choices: vec![GChoice { entries: vec![] }] } }] }] } }),
      });
      Some(out)
    }
    "split-choice" | "socket-choice" => {
      let cands: Vec<usize> = (0..g.rules.len())
        .filter(|i| matches!(&g.rules[*i].body, GBody::Type(t) if t.choices.len() >= 2) && g.rules[*i].assign == Assign::Eq && g.rules.iter().filter(|x| x.name == g.rules[*i].name).count() == 1)
        .collect();
      if cands.is_empty() {
        return None;
      }
      let ri = cands[k % cands.len()];
      let r = g.rules[ri].clone();
      let t = match &r.body {
        GBody::Type(t) => t.clone(),
        _ => return None,
      };
      if kind == "split-choice" {
        out.rules[ri].body = GBody::Type(GType { choices: vec![t.choices[0].clone()] });
        for c in &t.choices[1..] {
          out.rules.push(GRule { name: r.name.clone(), params: r.params.clone(), assign: Assign::TypeAlt, body: GBody::Type(GType { choices: vec![c.clone()] }) });
        }
      } else {
        if !r.params.is_empty() {
          return None;
        }
        let s = format!("${}", fresh(g, "sk"));
        out.rules[ri].body = GBody::Type(GType { choices: vec![t.choices[0].clone(), t1(name(&s))] });
        for c in &t.choices[1..] {
          out.rules.push(GRule { name: s.clone(), params: vec![], assign: Assign::TypeAlt, body: GBody::Type(GType { choices: vec![c.clone()] }) });
        }
      }
      Some(out)
    }
    "parens" => {
      if n == 0 {
        return None;
      }
      let ok = at_t2(&mut out, k % n, &mut |x, _| {
        let inner = x.clone();
        *x = GType2::Paren(ty(inner));
        true
      });
      if ok {
        Some(out)
      } else {
        None
      }
    }
    "rename" => {
      let cands: Vec<String> = {
        let mut v: Vec<String> = g.rules.iter().map(|r| r.name.clone()).filter(|n| !n.starts_with('$')).collect();
        v.dedup();
        v
      };
      if cands.is_empty() {
        return None;
      }
      let old = cands[k % cands.len()].clone();
      let new = fresh(g, "rn-");
      for r in &mut out.rules {
        if r.name == old {
          r.name = new.clone();
        }
      }
      {
        let mut t2 = |x: &mut GType2| match x {
          GType2::Name(n2, _) | GType2::Unwrap(n2, _) | GType2::EnumName(n2, _) => {
            if *n2 == old {
              *n2 = new.clone();
            }
          }
          _ => {}
        };
        let mut t1f = |_: &mut GType1| {};
        let mut en = |e: &mut GEntry| {
          if let GEntry::Name { name, .. } = e {
            if *name == old {
              *name = new.clone();
            }
          }
        };
        // generic parameters named like the rule shadow it: leave such rules alone
        for r in &mut out.rules {
          if r.params.contains(&old) {
            continue;
          }
          let mut one = GS { rules: vec![r.clone()] };
          VisitMut { t2: &mut t2, t1: &mut t1f, entry: &mut en }.gs(&mut one);
          *r = one.rules.remove(0);
        }
      }
      Some(out)
    }
    "add-unused-rules" => {
      let a = fresh(g, "un");
      out.rules.push(GRule { name: a.clone(), params: vec![], assign: Assign::Eq, body: GBody::Type(GType { choices: vec![t1(name("int")), t1(name("tstr"))] }) });
      let b2 = fresh(&out, "ug");
      out.rules.insert(1.min(out.rules.len()), GRule {
        name: b2,
        params: vec![],
        assign: Assign::Eq,
        body: GBody::Group(GEntry::Inline { occ: None, group: GGroup { choices: vec![GChoice { entries: vec![GEntry::Val { occ: Some(GOcc::Opt), key: Some(GKey::Bare("zz".into())), ty: tname(&a) }] }] } }),
      });
      Some(out)
    }
    "reorder-rules" => {
      if g.rules.len() < 3 {
        return None;
      }
      // rotate the rules after the first one; keep the relative order of definitions of one name
      let mut rest: Vec<GRule> = out.rules.split_off(1);
      let r = 1 + k % (rest.len() - 1);
      rest.rotate_left(r);
      // restore per-name definition order ('=' before its increments)
      let mut fixed: Vec<GRule> = vec![];
      let names: Vec<String> = rest.iter().map(|x| x.name.clone()).collect();
      let mut used = vec![false; rest.len()];
      for i in 0..rest.len() {
        if used[i] {
          continue;
        }
        // emit, in original order, the next unused definition of this name
        let nm = &names[i];
        let orig: Vec<&GRule> = g.rules[1..].iter().filter(|x| x.name == *nm).collect();
        let already = fixed.iter().filter(|x| x.name == *nm).count();
        fixed.push(orig[already].clone());
        used[i] = true;
      }
      out.rules.extend(fixed);
      // the first rule's name may also be defined later (increments): fine
      Some(out)
    }
    "inline-group" => {
      // a reference (as a group entry) to a non-generic, singly defined, non-recursive group rule
      // ==> the rule's entry as an inline group
      let cands: Vec<usize> = (0..g.rules.len())
        .filter(|i| {
          let r = &g.rules[*i];
          match &r.body {
            GBody::Group(e) => {
              r.params.is_empty()
                && !r.name.starts_with('$')
                && g.rules.iter().filter(|x| x.name == r.name).count() == 1
                && !mentions(&GType2::Array(GGroup { choices: vec![GChoice { entries: vec![e.clone()] }] }), &[r.name.clone()])
            }
            _ => false,
          }
        })
        .collect();
      if cands.is_empty() {
        return None;
      }
      let ri = cands[k % cands.len()];
      let (nm, e0) = match &g.rules[ri].body {
        GBody::Group(e) => (g.rules[ri].name.clone(), e.clone()),
        _ => return None,
      };
      let body = match &e0 {
        GEntry::Inline { occ: None, group } => group.clone(),
        other => GGroup { choices: vec![GChoice { entries: vec![other.clone()] }] },
      };
      let done = Cell::new(false);
      {
        let mut t2 = |_: &mut GType2| {};
        let mut t1f = |_: &mut GType1| {};
        let mut en = |e: &mut GEntry| {
          if done.get() {
            return;
          }
          if let GEntry::Name { occ, name, args } = e {
            if *name == nm && args.is_empty() {
              *e = GEntry::Inline { occ: occ.clone(), group: body.clone() };
              done.set(true);
            }
          }
        };
        VisitMut { t2: &mut t2, t1: &mut t1f, entry: &mut en }.gs(&mut out);
      }
      if done.get() {
        Some(out)
      } else {
        None
      }
    }
    "extract-group" => {
      // an inline group entry without occurrence inside an array/map ==> reference to a fresh group rule
      let gname = fresh(g, "xg");
      let done = Cell::new(false);
      let body: std::cell::RefCell<Option<GGroup>> = std::cell::RefCell::new(None);
      let cnt = Cell::new(0usize);
      let total = {
        let c = Cell::new(0usize);
        let mut tmp = g.clone();
        let mut t2 = |_: &mut GType2| {};
        let mut t1f = |_: &mut GType1| {};
        let mut en = |e: &mut GEntry| {
          if matches!(e, GEntry::Inline { .. }) {
            c.set(c.get() + 1);
          }
        };
        // group rule bodies themselves are entries too: skip rule level by visiting only nested entries
        VisitMut { t2: &mut t2, t1: &mut t1f, entry: &mut en }.gs(&mut tmp);
        c.get()
      };
      if total == 0 {
        return None;
      }
      let target = k % total;
      {
        let mut t2 = |_: &mut GType2| {};
        let mut t1f = |_: &mut GType1| {};
        let mut en = |e: &mut GEntry| {
          if let GEntry::Inline { occ, group } = e {
            if !done.get() && cnt.get() == target {
              // keep the entry unambiguous as a group rule body
              *body.borrow_mut() = Some(group.clone());
              *e = GEntry::Name { occ: occ.clone(), name: gname.clone(), args: vec![] };
              done.set(true);
            }
            cnt.set(cnt.get() + 1);
          }
        };
        // do not rewrite a rule's own top-level entry (a group rule body)
        for r in &mut out.rules {
          match &mut r.body {
            GBody::Type(t) => {
              let mut v = VisitMut { t2: &mut t2, t1: &mut t1f, entry: &mut en };
              v.ty(t);
            }
            GBody::Group(GEntry::Inline { group, .. }) => {
              cnt.set(cnt.get() + 1); // the body itself was counted in `total`
              let mut v = VisitMut { t2: &mut t2, t1: &mut t1f, entry: &mut en };
              v.gr(group);
            }
            GBody::Group(e0) => {
              let mut v = VisitMut { t2: &mut t2, t1: &mut t1f, entry: &mut en };
              match e0 {
                GEntry::Val { key, ty, .. } => {
                  if let Some(GKey::Type1 { t1, .. }) = key {
                    v.ty1(t1);
                  }
                  v.ty(ty);
                }
                _ => {}
              }
            }
          }
        }
      }
      let b = body.into_inner()?;
      if mentions(&GType2::Array(b.clone()), &g.rules.iter().flat_map(|r| r.params.clone()).collect::<Vec<_>>()) {
        return None;
      }
      // two entries so that the rule body is unambiguously a group: ( <group> , ( ) )
      out.rules.push(GRule {
        name: gname,
        params: vec![],
        assign: Assign::Eq,
        body: GBody::Group(GEntry::Inline { occ: None, group: GGroup { choices: vec![GChoice { entries: vec![GEntry::Inline { occ: None, group: b }, GEntry::Inline { occ: None, group: GGroup { choices: vec![GChoice { entries: vec![] }] } }] }] } }),
      });
      Some(out)
    }
    _ => None,
  }
}

// ---------------------------------------------------------------------------
// C09: identities of operators, occurrences and prelude names, as rewrites

pub const KINDS9: &[&str] = &["swap-choice", "occ-spelling", "prelude-expand", "range-excl-to-incl", "swap-group-choice-disjoint"];

/// RFC 8610 Appendix D definitions written out (as type trees)
pub fn prelude_definition(n: &str, cbor: bool) -> Option<GType> {
  let nm = |s: &str| t1(name(s));
  let tag = |k: u64, inner: &str| GType { choices: vec![t1(GType2::Tag(Some(GTagC::Lit(k)), tname(inner)))] };
  Some(match n {
    "int" => GType { choices: vec![nm("uint"), nm("nint")] },
    "number" => GType { choices: vec![nm("int"), nm("float")] },
    "bool" => GType { choices: vec![nm("false"), nm("true")] },
    "text" => tname("tstr"),
    "tstr" => tname("text"),
    "nil" => tname("null"),
    "null" => tname("nil"),
    "uint" if cbor => ty(GType2::Major(0, None)),
    "nint" if cbor => ty(GType2::Major(1, None)),
    "bstr" if cbor => ty(GType2::Major(2, None)),
    "bytes" if cbor => tname("bstr"),
    "tstr" if cbor => ty(GType2::Major(3, None)),
    "float" if cbor => GType { choices: vec![nm("float16-32"), nm("float64")] },
    "float64" if cbor => ty(GType2::Major(7, Some(GTagC::Lit(27)))),
    "false" if cbor => ty(GType2::Major(7, Some(GTagC::Lit(20)))),
    "true" if cbor => ty(GType2::Major(7, Some(GTagC::Lit(21)))),
    "nil" if cbor => ty(GType2::Major(7, Some(GTagC::Lit(22)))),
    "undefined" if cbor => ty(GType2::Major(7, Some(GTagC::Lit(23)))),
    "tdate" if cbor => tag(0, "tstr"),
    "time" if cbor => tag(1, "number"),
    "biguint" if cbor => tag(2, "bstr"),
    "bignint" if cbor => tag(3, "bstr"),
    "bigint" if cbor => GType { choices: vec![nm("biguint"), nm("bignint")] },
    "integer" if cbor => GType { choices: vec![nm("int"), nm("bigint")] },
    "unsigned" if cbor => GType { choices: vec![nm("uint"), nm("biguint")] },
    "uri" if cbor => tag(32, "tstr"),
    "b64url" if cbor => tag(33, "tstr"),
    "regexp" if cbor => tag(35, "tstr"),
    "encoded-cbor" if cbor => tag(24, "bstr"),
    "cbor-any" if cbor => tag(55799, "any"),
    _ => return None,
  })
}

pub fn apply9(kind: &str, g: &GS, k: usize, cbor: bool) -> Option<GS> {
  let mut out = g.clone();
  match kind {
    "swap-choice" => {
      // reverse the alternatives of the k-th type with >= 2 choices (rule bodies and nested types)
      let cnt = Cell::new(0usize);
      let total = {
        let c = Cell::new(0usize);
        let mut tmp = g.clone();
        visit_types(&mut tmp, &mut |t| {
          if t.choices.len() >= 2 {
            c.set(c.get() + 1);
          }
        });
        c.get()
      };
      if total == 0 {
        return None;
      }
      let target = k % total;
      visit_types(&mut out, &mut |t| {
        if t.choices.len() >= 2 {
          if cnt.get() == target {
            t.choices.reverse();
          }
          cnt.set(cnt.get() + 1);
        }
      });
      Some(out)
    }
    "occ-spelling" => {
      let cnt = Cell::new(0usize);
      let total = {
        let c = Cell::new(0usize);
        let mut tmp = g.clone();
        visit_entries(&mut tmp, &mut |e| {
          if occ_of(e).map(|o| respell(o).is_some()).unwrap_or(false) {
            c.set(c.get() + 1);
          }
        });
        c.get()
      };
      if total == 0 {
        return None;
      }
      let target = k % total;
      visit_entries(&mut out, &mut |e| {
        let cur = occ_of(e).cloned();
        if let Some(o) = cur {
          if let Some(n) = respell(&o) {
            if cnt.get() == target {
              set_occ(e, Some(n));
            }
            cnt.set(cnt.get() + 1);
          }
        }
      });
      Some(out)
    }
    "prelude-expand" => {
      // in the k-th type that has a bare prelude name as one of its alternatives, splice the
      // alternatives of the name's definition in its place (no parentheses involved)
      let defined: Vec<String> = g.rules.iter().map(|r| r.name.clone()).collect();
      let params: Vec<String> = g.rules.iter().flat_map(|r| r.params.clone()).collect();
      let expandable = |c: &GType1| -> Option<GType> {
        if c.op.is_some() {
          return None;
        }
        if let GType2::Name(nm, a) = &c.t2 {
          if a.is_empty() && !defined.contains(nm) && !params.contains(nm) {
            return prelude_definition(nm, cbor);
          }
        }
        None
      };
      let total = {
        let c = Cell::new(0usize);
        let mut tmp = g.clone();
        visit_types(&mut tmp, &mut |t| {
          if t.choices.iter().any(|x| expandable(x).is_some()) {
            c.set(c.get() + 1);
          }
        });
        c.get()
      };
      if total == 0 {
        return None;
      }
      let target = k % total;
      let cnt = Cell::new(0usize);
      visit_types(&mut out, &mut |t| {
        if t.choices.iter().any(|x| expandable(x).is_some()) {
          if cnt.get() == target {
            let i = t.choices.iter().position(|x| expandable(x).is_some()).unwrap();
            let d = expandable(&t.choices[i]).unwrap();
            t.choices.splice(i..=i, d.choices);
          }
          cnt.set(cnt.get() + 1);
        }
      });
      Some(out)
    }
    "range-excl-to-incl" => {
      // a...b == a..(b-1) on integers (the two operators differ only at the upper bound)
      let done = Cell::new(false);
      {
        let mut t2 = |_: &mut GType2| {};
        let mut t1f = |t: &mut GType1| {
          if done.get() {
            return;
          }
          if let Some((GOp::Range { incl }, hi)) = &mut t.op {
            if !*incl {
              if let GType2::Lit(l) = hi {
                let v = match l.value() {
                  GLit::Uint(n) => Some(*n as i128),
                  GLit::Nint(n) => Some(*n),
                  _ => None,
                };
                let lo_int = matches!(&t.t2, GType2::Lit(x) if matches!(x.value(), GLit::Uint(_) | GLit::Nint(_)));
                if let (Some(v), true) = (v, lo_int) {
                  let n = v - 1;
                  *hi = GType2::Lit(if n >= 0 { GLit::Uint(n as u64) } else { GLit::Nint(n) });
                  *incl = true;
                  done.set(true);
                }
              }
            }
          }
        };
        let mut en = |_: &mut GEntry| {};
        VisitMut { t2: &mut t2, t1: &mut t1f, entry: &mut en }.gs(&mut out);
      }
      if done.get() {
        Some(out)
      } else {
        None
      }
    }
    _ => None,
  }
}

fn occ_of(e: &GEntry) -> Option<&GOcc> {
  match e {
    GEntry::Val { occ, .. } | GEntry::Name { occ, .. } | GEntry::Inline { occ, .. } => occ.as_ref(),
  }
}
fn set_occ(e: &mut GEntry, o: Option<GOcc>) {
  match e {
    GEntry::Val { occ, .. } | GEntry::Name { occ, .. } | GEntry::Inline { occ, .. } => *occ = o,
  }
}
/// the other spelling of the same occurrence
fn respell(o: &GOcc) -> Option<GOcc> {
  Some(match o {
    GOcc::Opt => GOcc::Range(Some(0), Some(1)),
    GOcc::Star => GOcc::Range(Some(0), None),
    GOcc::Plus => GOcc::Range(Some(1), None),
    GOcc::Range(Some(0), Some(1)) => GOcc::Opt,
    GOcc::Range(Some(0), None) => GOcc::Star,
    GOcc::Range(Some(1), None) => GOcc::Plus,
    GOcc::Range(None, Some(n)) => GOcc::Range(Some(0), Some(*n)),
    _ => return None,
  })
}

pub fn visit_types(g: &mut GS, f: &mut dyn FnMut(&mut GType)) {
  fn ty(t: &mut GType, f: &mut dyn FnMut(&mut GType)) {
    f(t);
    for c in &mut t.choices {
      t2(&mut c.t2, f);
      if let Some((_, r)) = &mut c.op {
        t2(r, f);
      }
    }
  }
  fn t2(t: &mut GType2, f: &mut dyn FnMut(&mut GType)) {
    match t {
      GType2::Paren(x) | GType2::Tag(_, x) => ty(x, f),
      GType2::Map(g) | GType2::Array(g) | GType2::EnumInline(g) => gr(g, f),
      GType2::Name(_, a) | GType2::Unwrap(_, a) | GType2::EnumName(_, a) => {
        for x in a {
          t2(&mut x.t2, f);
        }
      }
      _ => {}
    }
  }
  fn gr(g: &mut GGroup, f: &mut dyn FnMut(&mut GType)) {
    for c in &mut g.choices {
      for e in &mut c.entries {
        en(e, f);
      }
    }
  }
  fn en(e: &mut GEntry, f: &mut dyn FnMut(&mut GType)) {
    match e {
      GEntry::Val { ty: t, .. } => ty(t, f),
      GEntry::Inline { group, .. } => gr(group, f),
      GEntry::Name { .. } => {}
    }
  }
  for r in &mut g.rules {
    match &mut r.body {
      GBody::Type(t) => ty(t, f),
      GBody::Group(e) => en(e, f),
    }
  }
}

pub fn visit_entries(g: &mut GS, f: &mut dyn FnMut(&mut GEntry)) {
  let mut t2 = |_: &mut GType2| {};
  let mut t1f = |_: &mut GType1| {};
  VisitMut { t2: &mut t2, t1: &mut t1f, entry: f }.gs(g);
}
