//! R-eval: an independent RFC 8610 evaluator over harness-side schema trees
//! (`GS`) and data-model values (`DV`). Three-valued: Acc / Rej / Unspec, where
//! Unspec means "the RFC, the property or this model leaves the case open" — such
//! cases are counted, never judged. Arrays are matched as the documented PEG
//! sequence match; maps by existence of an assignment of every physical pair.
//!
//! Nothing here shares code with the `cddl` crate.

use crate::dv::DV;
use crate::gs::*;

#[derive(Clone, Copy, Debug, PartialEq, Eq)]
pub enum Tri {
  Acc,
  Rej,
  Unspec,
}
use Tri::*;

impl Tri {
  pub fn or(self, o: Tri) -> Tri {
    match (self, o) {
      (Acc, _) | (_, Acc) => Acc,
      (Unspec, _) | (_, Unspec) => Unspec,
      _ => Rej,
    }
  }
  pub fn and(self, o: Tri) -> Tri {
    match (self, o) {
      (Rej, _) | (_, Rej) => Rej,
      (Unspec, _) | (_, Unspec) => Unspec,
      _ => Acc,
    }
  }
  pub fn name(self) -> &'static str {
    match self {
      Acc => "accept",
      Rej => "reject",
      Unspec => "unspecified",
    }
  }
}

fn b(x: bool) -> Tri {
  if x {
    Acc
  } else {
    Rej
  }
}

/// one flattened member of a map group choice
#[derive(Clone, Debug)]
struct Flat {
  key: FKey,
  val: GType,
  min: u64,
  max: Option<u64>,
  cut: bool,
}

#[derive(Clone, Debug)]
enum FKey {
  Lit(DV),
  Type(GType1),
}

pub struct Eval<'a> {
  pub gs: &'a GS,
  /// JSON data model: an integer and a float of equal value are not distinguished (=> Unspec),
  /// tags / bytes / non-text keys do not exist
  pub json: bool,
  fuel: u64,
  out_of_fuel: bool,
  /// (rule name, value address) pairs in progress: re-entry = no match (least fixed point)
  active: Vec<(String, usize)>,
  poison: bool,
  /// decide maps with duplicate keys (C10) instead of leaving them unspecified
  pub dup_keys_decided: bool,
}

const MAX_FUEL: u64 = 400_000;

impl<'a> Eval<'a> {
  pub fn new(gs: &'a GS, json: bool) -> Eval<'a> {
    Eval { gs, json, fuel: MAX_FUEL, out_of_fuel: false, active: vec![], poison: false, dup_keys_decided: false }
  }

  /// verdict of the first type rule (the root) on `v`
  pub fn root(&mut self, v: &DV) -> Tri {
    let root = self.gs.rules.iter().find(|r| matches!(r.body, GBody::Type(_)) && r.params.is_empty());
    let root = match root {
      Some(r) => r.name.clone(),
      None => return Unspec,
    };
    let r = self.t2(&GType2::Name(root, vec![]), v);
    if self.out_of_fuel {
      Unspec
    } else {
      r
    }
  }

  pub fn eval_type(&mut self, t: &GType, v: &DV) -> Tri {
    let r = self.ty(t, v);
    if self.out_of_fuel {
      Unspec
    } else {
      r
    }
  }

  fn tick(&mut self) -> bool {
    if self.fuel == 0 {
      self.out_of_fuel = true;
      return false;
    }
    self.fuel -= 1;
    true
  }

  // -------------------------------------------------------------------------
  // names

  fn type_defs(&self, n: &str) -> Vec<&'a GRule> {
    self.gs.rules.iter().filter(|r| r.name == n && matches!(r.body, GBody::Type(_))).collect()
  }
  fn group_defs(&self, n: &str) -> Vec<&'a GRule> {
    self.gs.rules.iter().filter(|r| r.name == n && matches!(r.body, GBody::Group(_))).collect()
  }

  /// substitute generic parameters in a type tree
  fn subst_t(t: &GType, ps: &[String], args: &[GType1]) -> GType {
    GType { choices: t.choices.iter().map(|c| Self::subst_t1(c, ps, args)).collect() }
  }
  fn subst_t1(t: &GType1, ps: &[String], args: &[GType1]) -> GType1 {
    // a bare parameter with no operator is replaced by the argument (which may carry an operator)
    if t.op.is_none() {
      if let GType2::Name(n, a) = &t.t2 {
        if a.is_empty() {
          if let Some(i) = ps.iter().position(|p| p == n) {
            return args[i].clone();
          }
        }
      }
    }
    GType1 { t2: Self::subst_t2(&t.t2, ps, args), op: t.op.as_ref().map(|(o, r)| (o.clone(), Self::subst_t2(r, ps, args))) }
  }
  fn subst_t2(t: &GType2, ps: &[String], args: &[GType1]) -> GType2 {
    let sa = |a: &Vec<GType1>| a.iter().map(|x| Self::subst_t1(x, ps, args)).collect::<Vec<_>>();
    match t {
      GType2::Name(n, a) => {
        if a.is_empty() {
          if let Some(i) = ps.iter().position(|p| p == n) {
            // parameter in operand position: wrap the argument in parentheses if it has an operator
            return match &args[i].op {
              None => args[i].t2.clone(),
              Some(_) => GType2::Paren(GType { choices: vec![args[i].clone()] }),
            };
          }
        }
        GType2::Name(n.clone(), sa(a))
      }
      GType2::Unwrap(n, a) => GType2::Unwrap(n.clone(), sa(a)),
      GType2::EnumName(n, a) => GType2::EnumName(n.clone(), sa(a)),
      GType2::Paren(t) => GType2::Paren(Self::subst_t(t, ps, args)),
      GType2::Map(g) => GType2::Map(Self::subst_g(g, ps, args)),
      GType2::Array(g) => GType2::Array(Self::subst_g(g, ps, args)),
      GType2::EnumInline(g) => GType2::EnumInline(Self::subst_g(g, ps, args)),
      GType2::Tag(c, t) => GType2::Tag(c.clone(), Self::subst_t(t, ps, args)),
      x => x.clone(),
    }
  }
  fn subst_g(g: &GGroup, ps: &[String], args: &[GType1]) -> GGroup {
    GGroup { choices: g.choices.iter().map(|c| GChoice { entries: c.entries.iter().map(|e| Self::subst_e(e, ps, args)).collect() }).collect() }
  }
  fn subst_e(e: &GEntry, ps: &[String], args: &[GType1]) -> GEntry {
    match e {
      GEntry::Val { occ, key, ty } => GEntry::Val {
        occ: occ.clone(),
        key: key.as_ref().map(|k| match k {
          GKey::Type1 { t1, cut } => GKey::Type1 { t1: Self::subst_t1(t1, ps, args), cut: *cut },
          x => x.clone(),
        }),
        ty: Self::subst_t(ty, ps, args),
      },
      GEntry::Name { occ, name, args: a } => {
        if a.is_empty() {
          if let Some(i) = ps.iter().position(|p| p == name) {
            // a parameter used as a whole entry: becomes a keyless entry of the argument type
            return GEntry::Val { occ: occ.clone(), key: None, ty: GType { choices: vec![args[i].clone()] } };
          }
        }
        GEntry::Name { occ: occ.clone(), name: name.clone(), args: a.iter().map(|x| Self::subst_t1(x, ps, args)).collect() }
      }
      GEntry::Inline { occ, group } => GEntry::Inline { occ: occ.clone(), group: Self::subst_g(group, ps, args) },
    }
  }

  /// all type alternatives a name denotes, instantiated; None = not a type name known to the model
  fn type_alts(&self, n: &str, args: &[GType1]) -> Option<Vec<GType>> {
    let defs = self.type_defs(n);
    if defs.is_empty() {
      return None;
    }
    let mut out = vec![];
    for d in defs {
      if d.params.len() != args.len() {
        return None;
      }
      if let GBody::Type(t) = &d.body {
        out.push(if args.is_empty() { t.clone() } else { Self::subst_t(t, &d.params, args) });
      }
    }
    Some(out)
  }

  /// all group alternatives (entries) a name denotes, instantiated
  fn group_alts(&self, n: &str, args: &[GType1]) -> Option<Vec<GEntry>> {
    let defs = self.group_defs(n);
    if defs.is_empty() {
      return None;
    }
    let mut out = vec![];
    for d in defs {
      if d.params.len() != args.len() {
        return None;
      }
      if let GBody::Group(e) = &d.body {
        out.push(if args.is_empty() { e.clone() } else { Self::subst_e(e, &d.params, args) });
      }
    }
    Some(out)
  }

  // -------------------------------------------------------------------------
  // types

  fn ty(&mut self, t: &GType, v: &DV) -> Tri {
    let mut r = Rej;
    for c in &t.choices {
      r = r.or(self.t1(c, v));
      if r == Acc {
        return Acc;
      }
    }
    r
  }

  /// the literal a type2 denotes when it is (an alias of) a single literal
  fn lit_of(&self, t: &GType2, depth: usize) -> Option<GLit> {
    match t {
      GType2::Lit(l) => Some(l.value().clone()),
      GType2::Paren(t) if t.choices.len() == 1 && t.choices[0].op.is_none() => self.lit_of(&t.choices[0].t2, depth),
      GType2::Name(n, a) if a.is_empty() && depth < 8 => {
        let d = self.type_defs(n);
        if d.len() == 1 && d[0].params.is_empty() {
          if let GBody::Type(t) = &d[0].body {
            if t.choices.len() == 1 && t.choices[0].op.is_none() {
              return self.lit_of(&t.choices[0].t2, depth + 1);
            }
          }
        }
        None
      }
      _ => None,
    }
  }

  fn num_of(l: &GLit) -> Option<Result<i128, f64>> {
    match l {
      GLit::Uint(n) => Some(Ok(*n as i128)),
      GLit::Nint(n) => Some(Ok(*n)),
      GLit::Float(f) => Some(Err(*f)),
      _ => None,
    }
  }

  fn lit_match(&self, l: &GLit, v: &DV) -> Tri {
    match (l.value(), v) {
      (GLit::Uint(n), DV::Int(i)) => b(*i == *n as i128),
      (GLit::Nint(n), DV::Int(i)) => b(i == n),
      (GLit::Uint(_), DV::Float(f)) | (GLit::Nint(_), DV::Float(f)) => {
        let n = match l.value() {
          GLit::Uint(n) => *n as f64,
          GLit::Nint(n) => *n as f64,
          _ => 0.0,
        };
        if self.json && *f == n {
          Unspec
        } else {
          Rej
        }
      }
      (GLit::Float(x), DV::Float(f)) => b(x == f),
      (GLit::Float(x), DV::Int(i)) => {
        if self.json && *x == *i as f64 {
          Unspec
        } else {
          Rej
        }
      }
      (GLit::Text(s), DV::Text(t)) => b(s == t),
      (GLit::Bytes(_, x), DV::Bytes(y)) => b(x == y),
      _ => Rej,
    }
  }

  fn range(&mut self, lo: &GType2, hi: &GType2, incl: bool, v: &DV) -> Tri {
    let (l, h) = match (self.lit_of(lo, 0), self.lit_of(hi, 0)) {
      (Some(l), Some(h)) => (l, h),
      _ => return Unspec,
    };
    match (Self::num_of(&l), Self::num_of(&h), v) {
      (Some(Ok(a)), Some(Ok(c)), DV::Int(i)) => b(a <= *i && if incl { *i <= c } else { *i < c }),
      (Some(Ok(a)), Some(Ok(c)), DV::Float(f)) => {
        // an integer range does not contain floats; JSON cannot tell 3.0 from 3
        if self.json && f.fract() == 0.0 && (a as f64) <= *f && *f <= c as f64 {
          Unspec
        } else {
          Rej
        }
      }
      (Some(Err(a)), Some(Err(c)), DV::Float(f)) => b(a <= *f && if incl { *f <= c } else { *f < c }),
      (Some(Err(a)), Some(Err(c)), DV::Int(i)) => {
        let f = *i as f64;
        if self.json && a <= f && f <= c {
          Unspec
        } else {
          Rej
        }
      }
      (Some(Ok(_)), Some(Ok(_)), _) | (Some(Err(_)), Some(Err(_)), _) => Rej,
      _ => Unspec, // mixed or non-numeric bounds
    }
  }

  fn cmp_num(v: &DV, l: &GLit) -> Option<std::cmp::Ordering> {
    match (v, Self::num_of(l)?) {
      (DV::Int(i), Ok(n)) => Some(i.cmp(&n)),
      (DV::Float(f), Err(x)) => f.partial_cmp(&x),
      _ => None,
    }
  }

  fn size_of_arg(&mut self, arg: &GType2) -> Option<(u64, Option<u64>)> {
    // N, or (a..b) / (a...b)
    if let Some(GLit::Uint(n)) = self.lit_of(arg, 0) {
      return Some((n, Some(n)));
    }
    if let GType2::Paren(t) = arg {
      if t.choices.len() == 1 {
        if let Some((GOp::Range { incl }, hi)) = &t.choices[0].op {
          if let (Some(GLit::Uint(a)), Some(GLit::Uint(c))) = (self.lit_of(&t.choices[0].t2, 0), self.lit_of(hi, 0)) {
            if *incl {
              return Some((a, Some(c)));
            } else if c > 0 {
              return Some((a, Some(c - 1)));
            } else {
              return None;
            }
          }
        }
      }
    }
    None
  }

  fn t1(&mut self, t: &GType1, v: &DV) -> Tri {
    if !self.tick() {
      return Unspec;
    }
    let (op, rhs) = match &t.op {
      None => return self.t2(&t.t2, v),
      Some(x) => x,
    };
    match op {
      GOp::Range { incl } => self.range(&t.t2, rhs, *incl, v),
      GOp::Ctl(c) => {
        // a controller that is not of the decided form leaves the whole type undecided
        // (also keeps the shrinker from producing nonsensical controllers)
        let arg_ok = match c.as_str() {
          "size" => self.size_of_arg(rhs).is_some(),
          "lt" | "le" | "gt" | "ge" => matches!(self.lit_of(rhs, 0).as_ref().and_then(Self::num_of), Some(_)),
          "eq" | "ne" => self.lit_of(rhs, 0).is_some(),
          "and" | "within" | "default" => true,
          _ => false,
        };
        if !arg_ok {
          return Unspec;
        }
        let target = self.t2(&t.t2, v);
        if target == Rej {
          return Rej;
        }
        let cons = match c.as_str() {
          "and" | "within" => self.t2(rhs, v),
          "default" => Acc,
          "size" => match self.size_of_arg(rhs) {
            None => Unspec,
            Some((lo, hi)) => match v {
              DV::Text(s) => b(s.len() as u64 >= lo && hi.map(|h| s.len() as u64 <= h).unwrap_or(true)),
              DV::Bytes(x) => b(x.len() as u64 >= lo && hi.map(|h| x.len() as u64 <= h).unwrap_or(true)),
              DV::Int(i) if *i >= 0 => {
                // uint .size N: value < 256^N (a range controller on an integer target is not decided here)
                if lo != hi.unwrap_or(u64::MAX) {
                  Unspec
                } else if lo >= 16 {
                  Acc
                } else {
                  b((*i as u128) < (1u128 << (8 * lo)))
                }
              }
              _ => Unspec,
            },
          },
          "lt" | "le" | "gt" | "ge" => match self.lit_of(rhs, 0) {
            None => Unspec,
            Some(l) => match Self::cmp_num(v, &l) {
              None => {
                // non-numeric value, or int compared with float
                match (v, Self::num_of(&l)) {
                  (DV::Int(_), Some(Err(_))) | (DV::Float(_), Some(Ok(_))) => Unspec,
                  (DV::Int(_), _) | (DV::Float(_), _) => Unspec,
                  _ => Unspec,
                }
              }
              Some(o) => {
                use std::cmp::Ordering::*;
                b(match c.as_str() {
                  "lt" => o == Less,
                  "le" => o != Greater,
                  "gt" => o == Greater,
                  _ => o != Less,
                })
              }
            },
          },
          "eq" | "ne" => match self.lit_of(rhs, 0) {
            None => Unspec,
            Some(l) => {
              let m = self.lit_match(&l, v);
              if c == "eq" {
                m
              } else {
                match m {
                  Acc => Rej,
                  Rej => Acc,
                  Unspec => Unspec,
                }
              }
            }
          },
          _ => Unspec,
        };
        target.and(cons)
      }
    }
  }

  fn prelude(&mut self, n: &str, v: &DV) -> Option<Tri> {
    let tag = |e: &mut Eval, num: u64, inner: &str, v: &DV| -> Tri {
      if e.json {
        return Unspec;
      }
      match v {
        DV::Tag(t, x) if *t == num => e.prelude(inner, x).unwrap_or(Unspec),
        _ => Rej,
      }
    };
    Some(match n {
      "any" => Acc,
      "uint" => match v {
        DV::Int(i) => b(*i >= 0),
        DV::Float(f) if self.json && f.fract() == 0.0 && *f >= 0.0 => Unspec,
        _ => Rej,
      },
      "nint" => match v {
        DV::Int(i) => b(*i < 0),
        DV::Float(f) if self.json && f.fract() == 0.0 && *f < 0.0 => Unspec,
        _ => Rej,
      },
      "int" => match v {
        DV::Int(_) => Acc,
        DV::Float(f) if self.json && f.fract() == 0.0 => Unspec,
        _ => Rej,
      },
      "float" | "float16" | "float32" | "float64" | "float16-32" | "float32-64" => match v {
        DV::Float(_) => Acc,
        DV::Int(_) if self.json => Unspec,
        _ => Rej,
      },
      "number" => b(matches!(v, DV::Int(_) | DV::Float(_))),
      "bstr" | "bytes" => b(matches!(v, DV::Bytes(_))),
      "tstr" | "text" => b(matches!(v, DV::Text(_))),
      "bool" => b(matches!(v, DV::Bool(_))),
      "true" => b(matches!(v, DV::Bool(true))),
      "false" => b(matches!(v, DV::Bool(false))),
      "nil" | "null" => b(matches!(v, DV::Null)),
      "undefined" => b(matches!(v, DV::Undefined)),
      "tdate" => tag(self, 0, "tstr", v),
      "time" => tag(self, 1, "number", v),
      "biguint" => tag(self, 2, "bstr", v),
      "bignint" => tag(self, 3, "bstr", v),
      "bigint" => self.prelude("biguint", v)?.or(self.prelude("bignint", v)?),
      "integer" => self.prelude("int", v)?.or(self.prelude("bigint", v)?),
      "unsigned" => self.prelude("uint", v)?.or(self.prelude("biguint", v)?),
      "eb64url" => tag(self, 21, "any", v),
      "eb64legacy" => tag(self, 22, "any", v),
      "eb16" => tag(self, 23, "any", v),
      "encoded-cbor" => tag(self, 24, "bstr", v),
      "uri" => tag(self, 32, "tstr", v),
      "b64url" => tag(self, 33, "tstr", v),
      "b64legacy" => tag(self, 34, "tstr", v),
      "regexp" => tag(self, 35, "tstr", v),
      "mime-message" => tag(self, 36, "tstr", v),
      "cbor-any" => tag(self, 55799, "any", v),
      // decfrac / bigfloat: arrays inside tags 4 / 5 - left to the unspecified set
      "decfrac" | "bigfloat" => Unspec,
      _ => return None,
    })
  }

  fn t2(&mut self, t: &GType2, v: &DV) -> Tri {
    if !self.tick() {
      return Unspec;
    }
    match t {
      GType2::Lit(l) => self.lit_match(l, v),
      GType2::Any => Acc,
      GType2::Paren(t) => self.ty(t, v),
      GType2::Name(n, args) => {
        if let Some(alts) = self.type_alts(n, args) {
          // least fixed point: re-entering the same rule on the same value node matches nothing
          let key = (format!("{}{}", n, if args.is_empty() { String::new() } else { format!("<{}>", args.iter().map(crate::skel::g1).collect::<Vec<_>>().join(",")) }), v as *const DV as usize);
          if self.active.contains(&key) {
            // an unguarded reference cycle: degenerate schema, not judged
            self.out_of_fuel = true;
            return Rej;
          }
          if self.active.len() > 200 {
            self.out_of_fuel = true;
            return Unspec;
          }
          self.active.push(key);
          let mut r = Rej;
          for a in &alts {
            r = r.or(self.ty(a, v));
            if r == Acc {
              break;
            }
          }
          self.active.pop();
          return r;
        }
        if !self.group_defs(n).is_empty() {
          return Unspec; // a group name in type position
        }
        if n.starts_with('$') {
          return Rej; // an empty socket is the empty type
        }
        if args.is_empty() {
          if let Some(r) = self.prelude(n, v) {
            return r;
          }
        }
        Unspec
      }
      GType2::Map(g) => match v {
        DV::Map(pairs) => self.map(g, pairs),
        _ => Rej,
      },
      GType2::Array(g) => match v {
        DV::Array(items) => {
          let saved = self.poison;
          self.poison = false;
          let r = self.seq_group(g, items, 0, 0);
          let p = self.poison;
          self.poison = saved;
          if p {
            Unspec
          } else {
            b(r == Some(items.len()))
          }
        }
        _ => Rej,
      },
      GType2::Tag(c, t) => {
        if self.json {
          return Unspec;
        }
        match (c, v) {
          (Some(GTagC::Lit(n)), DV::Tag(m, x)) => {
            if n == m {
              self.ty(t, x)
            } else {
              Rej
            }
          }
          (None, DV::Tag(_, x)) => self.ty(t, x),
          (Some(GTagC::Type(_)), _) => Unspec,
          _ => Rej,
        }
      }
      GType2::Major(mt, c) => {
        if c.is_some() && *mt < 7 {
          return Unspec;
        }
        match (mt, c) {
          (0, _) => self.prelude("uint", v).unwrap(),
          (1, _) => self.prelude("nint", v).unwrap(),
          (2, _) => b(matches!(v, DV::Bytes(_))),
          (3, _) => b(matches!(v, DV::Text(_))),
          (4, _) => b(matches!(v, DV::Array(_))),
          (5, _) => b(matches!(v, DV::Map(_))),
          (6, _) => {
            if self.json {
              Unspec
            } else {
              b(matches!(v, DV::Tag(..)))
            }
          }
          (7, None) => match v {
            DV::Float(_) | DV::Bool(_) | DV::Null | DV::Undefined | DV::Simple(_) => Acc,
            DV::Int(_) if self.json => Unspec,
            _ => Rej,
          },
          (7, Some(GTagC::Lit(m))) => match m {
            20 => b(matches!(v, DV::Bool(false))),
            21 => b(matches!(v, DV::Bool(true))),
            22 => b(matches!(v, DV::Null)),
            23 => b(matches!(v, DV::Undefined)),
            25 | 26 | 27 => self.prelude("float", v).unwrap(),
            m if *m < 256 => b(matches!(v, DV::Simple(s) if *s as u64 == *m)),
            _ => Unspec,
          },
          _ => Unspec,
        }
      }
      GType2::EnumInline(g) => {
        let mut r = Rej;
        for c in &g.choices {
          for e in &c.entries {
            r = r.or(self.enum_entry(e, v, 0));
          }
        }
        r
      }
      GType2::EnumName(n, args) => match self.group_alts(n, args) {
        None => Unspec,
        Some(es) => {
          let mut r = Rej;
          for e in &es {
            r = r.or(self.enum_entry(e, v, 0));
          }
          r
        }
      },
      GType2::Unwrap(n, args) => {
        // ~name in type position: only the "content of a tag type" reading is decided
        match self.type_alts(n, args) {
          Some(alts) if alts.len() == 1 && alts[0].choices.len() == 1 && alts[0].choices[0].op.is_none() => match &alts[0].choices[0].t2 {
            GType2::Tag(_, inner) => {
              let inner = inner.clone();
              self.ty(&inner, v)
            }
            _ => Unspec,
          },
          _ => Unspec,
        }
      }
    }
  }

  /// &(group): the union of the types of the group's entries
  fn enum_entry(&mut self, e: &GEntry, v: &DV, depth: usize) -> Tri {
    if depth > 6 {
      return Unspec;
    }
    match e {
      GEntry::Val { ty, .. } => self.ty(ty, v),
      GEntry::Name { name, args, .. } => match self.group_alts(name, args) {
        Some(es) => {
          let mut r = Rej;
          for x in &es {
            r = r.or(self.enum_entry(x, v, depth + 1));
          }
          r
        }
        None => self.t2(&GType2::Name(name.clone(), args.clone()), v),
      },
      GEntry::Inline { group, .. } => {
        let mut r = Rej;
        for c in &group.choices {
          for x in &c.entries {
            r = r.or(self.enum_entry(x, v, depth + 1));
          }
        }
        r
      }
    }
  }

  // -------------------------------------------------------------------------
  // arrays: PEG sequence match. Returns the position after the match, None = no match.

  fn seq_group(&mut self, g: &GGroup, e: &[DV], i: usize, depth: usize) -> Option<usize> {
    if !self.tick() || depth > 40 {
      self.poison = true;
      return None;
    }
    for c in &g.choices {
      if let Some(p) = self.seq_choice(c, e, i, depth) {
        return Some(p); // ordered choice: locked in
      }
    }
    None
  }

  fn seq_choice(&mut self, c: &GChoice, e: &[DV], i: usize, depth: usize) -> Option<usize> {
    let mut p = i;
    for en in &c.entries {
      p = self.seq_entry(en, e, p, depth)?;
    }
    Some(p)
  }

  fn seq_entry(&mut self, en: &GEntry, e: &[DV], i: usize, depth: usize) -> Option<usize> {
    let occ = match en {
      GEntry::Val { occ, .. } | GEntry::Name { occ, .. } | GEntry::Inline { occ, .. } => occ,
    };
    let (min, max) = GOcc::bounds(occ);
    let mut cur = i;
    let mut count: u64 = 0;
    while max.map(|m| count < m).unwrap_or(true) {
      if !self.tick() {
        self.poison = true;
        return None;
      }
      match self.seq_once(en, e, cur, depth) {
        None => break,
        Some(n) => {
          if n == cur {
            // zero-width iteration: further iterations match empty as well
            count = count.max(min);
            break;
          }
          cur = n;
          count += 1;
        }
      }
    }
    if count < min {
      None
    } else {
      Some(cur)
    }
  }

  fn seq_once(&mut self, en: &GEntry, e: &[DV], i: usize, depth: usize) -> Option<usize> {
    match en {
      GEntry::Inline { group, .. } => self.seq_group(group, e, i, depth + 1),
      GEntry::Name { name, args, .. } => self.seq_name(name, args, e, i, depth),
      GEntry::Val { ty, .. } => {
        // a keyless/keyed entry whose type is a lone name of a group rule is a group reference
        if let Some(GType1 { t2: GType2::Name(n, a), op: None }) = ty.single() {
          if self.type_defs(n).is_empty() && !self.group_defs(n).is_empty() {
            return self.seq_name(n, a, e, i, depth);
          }
        }
        // ~name of an array type splices that array's group
        if let Some(GType1 { t2: GType2::Unwrap(n, a), op: None }) = ty.single() {
          return match self.type_alts(n, a) {
            Some(alts) if alts.len() == 1 && alts[0].choices.len() == 1 && alts[0].choices[0].op.is_none() => match &alts[0].choices[0].t2 {
              GType2::Array(g) => {
                let g = g.clone();
                self.seq_group(&g, e, i, depth + 1)
              }
              _ => {
                self.poison = true;
                None
              }
            },
            _ => {
              self.poison = true;
              None
            }
          };
        }
        if i >= e.len() {
          return None;
        }
        match self.ty(ty, &e[i]) {
          Acc => Some(i + 1),
          Rej => None,
          Unspec => {
            self.poison = true;
            None
          }
        }
      }
    }
  }

  fn seq_name(&mut self, n: &str, args: &[GType1], e: &[DV], i: usize, depth: usize) -> Option<usize> {
    if let Some(alts) = self.group_alts(n, args) {
      let key = (format!("G:{}@{}", n, i), e.as_ptr() as usize);
      if self.active.contains(&key) {
        return None;
      }
      self.active.push(key);
      let mut r = None;
      // several definitions (= then //=) are ordered group choices
      for a in &alts {
        if let Some(p) = self.seq_entry(a, e, i, depth + 1) {
          r = Some(p);
          break;
        }
      }
      self.active.pop();
      return r;
    }
    // a type name (rule, prelude, socket) used as an entry: one element
    if i >= e.len() {
      return None;
    }
    match self.t2(&GType2::Name(n.to_string(), args.to_vec()), &e[i]) {
      Acc => Some(i + 1),
      Rej => None,
      Unspec => {
        self.poison = true;
        None
      }
    }
  }

  // -------------------------------------------------------------------------
  // maps

  /// flatten a group into alternatives of flat member lists; None = outside the decided fragment
  fn flatten(&mut self, g: &GGroup, depth: usize) -> Option<Vec<Vec<Flat>>> {
    if depth > 6 {
      return None;
    }
    let mut alts: Vec<Vec<Flat>> = vec![];
    for c in &g.choices {
      let mut cur: Vec<Vec<Flat>> = vec![vec![]];
      for en in &c.entries {
        let sub = self.flatten_entry(en, depth)?;
        let mut next = vec![];
        for a in &cur {
          for s in &sub {
            if next.len() > 64 {
              return None;
            }
            let mut x = a.clone();
            x.extend(s.iter().cloned());
            next.push(x);
          }
        }
        cur = next;
      }
      alts.extend(cur);
      if alts.len() > 64 {
        return None;
      }
    }
    Some(alts)
  }

  fn key_dv(l: &GLit) -> DV {
    match l.value() {
      GLit::Uint(n) => DV::Int(*n as i128),
      GLit::Nint(n) => DV::Int(*n),
      GLit::Float(f) => DV::Float(*f),
      GLit::Text(s) => DV::Text(s.clone()),
      GLit::Bytes(_, x) => DV::Bytes(x.clone()),
      GLit::Raw(..) => unreachable!(),
    }
  }

  fn flatten_entry(&mut self, en: &GEntry, depth: usize) -> Option<Vec<Vec<Flat>>> {
    match en {
      GEntry::Val { occ, key, ty } => {
        let (min, max) = GOcc::bounds(occ);
        let (k, cut) = match key {
          None => {
            // a lone group name is a group reference
            if let Some(GType1 { t2: GType2::Name(n, a), op: None }) = ty.single() {
              if self.type_defs(n).is_empty() && !self.group_defs(n).is_empty() {
                return self.flatten_entry(&GEntry::Name { occ: occ.clone(), name: n.clone(), args: a.clone() }, depth);
              }
            }
            return None; // keyless member of a map
          }
          Some(GKey::Bare(n)) => (FKey::Lit(DV::Text(n.clone())), true),
          Some(GKey::Value(l)) => (FKey::Lit(Self::key_dv(l)), true),
          Some(GKey::Type1 { t1, cut }) => match (&t1.op, self.lit_of(&t1.t2, 0)) {
            (None, Some(l)) => (FKey::Lit(Self::key_dv(&l)), *cut),
            _ => (FKey::Type(t1.clone()), *cut),
          },
        };
        Some(vec![vec![Flat { key: k, val: ty.clone(), min, max, cut }]])
      }
      GEntry::Name { occ, name, args } => {
        let alts = self.group_alts(name, args)?;
        let key = (format!("M:{}", name), 0usize);
        if self.active.contains(&key) {
          return None;
        }
        self.active.push(key);
        let mut out = vec![];
        let mut ok = true;
        for a in &alts {
          match self.flatten_entry(a, depth + 1) {
            Some(x) => out.extend(x),
            None => {
              ok = false;
              break;
            }
          }
        }
        self.active.pop();
        if !ok {
          return None;
        }
        Self::apply_occ(out, occ)
      }
      GEntry::Inline { occ, group } => {
        let inner = self.flatten(group, depth + 1)?;
        Self::apply_occ(inner, occ)
      }
    }
  }

  fn apply_occ(alts: Vec<Vec<Flat>>, occ: &Option<GOcc>) -> Option<Vec<Vec<Flat>>> {
    let (gmin, gmax) = GOcc::bounds(occ);
    if (gmin, gmax) == (1, Some(1)) {
      return Some(alts);
    }
    // an occurrence on a nested group: decided only for a single alternative with a single member
    if alts.len() == 1 && alts[0].len() == 1 {
      let mut f = alts[0][0].clone();
      f.min *= gmin;
      f.max = match (f.max, gmax) {
        (Some(a), Some(c)) => Some(a * c),
        _ => None,
      };
      return Some(vec![vec![f]]);
    }
    if alts.len() == 1 && alts[0].is_empty() {
      return Some(alts);
    }
    None
  }

  fn key_match(&mut self, k: &FKey, key: &DV) -> Tri {
    match k {
      FKey::Lit(d) => match (d, key) {
        (DV::Int(a), DV::Int(c)) => b(a == c),
        (DV::Float(a), DV::Float(c)) => b(a == c),
        (DV::Text(a), DV::Text(c)) => b(a == c),
        (DV::Bytes(a), DV::Bytes(c)) => b(a == c),
        (DV::Int(a), DV::Float(c)) | (DV::Float(c), DV::Int(a)) if self.json && *a as f64 == *c => Unspec,
        _ => Rej,
      },
      FKey::Type(t) => {
        let t = t.clone();
        self.t1(&t, key)
      }
    }
  }

  fn map(&mut self, g: &GGroup, pairs: &[(DV, DV)]) -> Tri {
    if !self.tick() {
      return Unspec;
    }
    if pairs.len() > 12 {
      return Unspec;
    }
    if !self.dup_keys_decided {
      for (i, (k, _)) in pairs.iter().enumerate() {
        if pairs[..i].iter().any(|(k2, _)| k2 == k) {
          return Unspec; // duplicate keys are C10's business
        }
      }
    }
    let alts = match self.flatten(g, 0) {
      Some(a) => a,
      None => return Unspec,
    };
    let mut res = Rej;
    for members in &alts {
      if members.len() > 12 {
        return Unspec;
      }
      // two members with the same literal key, or (JSON) a key type that no text can have:
      // schemas the fragment does not cover
      for (i, a) in members.iter().enumerate() {
        if let FKey::Lit(ka) = &a.key {
          if self.json && !matches!(ka, DV::Text(_)) {
            return Unspec;
          }
          for c in &members[i + 1..] {
            if let FKey::Lit(kc) = &c.key {
              if ka == kc {
                return Unspec;
              }
            }
          }
        } else if let FKey::Type(t) = &a.key {
          if self.json {
            let ok = t.op.is_none() && matches!(&t.t2, GType2::Name(n, a2) if a2.is_empty() && matches!(n.as_str(), "tstr" | "text" | "any"));
            if !ok {
              return Unspec;
            }
          }
        }
      }
      // compatibility matrices
      let n = pairs.len();
      let m = members.len();
      let mut km = vec![vec![Rej; m]; n];
      let mut vm = vec![vec![Rej; m]; n];
      for (pi, (k, v)) in pairs.iter().enumerate() {
        for (mi, f) in members.iter().enumerate() {
          km[pi][mi] = self.key_match(&f.key, k);
          vm[pi][mi] = if km[pi][mi] == Rej {
            Rej
          } else {
            let t = f.val.clone();
            self.ty(&t, v)
          };
        }
      }
      // edge(pi, mi): pessimistic (definitely allowed) / optimistic (possibly allowed)
      let mut pess = vec![vec![false; m]; n];
      let mut opt = vec![vec![false; m]; n];
      for pi in 0..n {
        for mi in 0..m {
          let direct = km[pi][mi].and(vm[pi][mi]);
          // cut: an earlier cut member whose key matches but whose value does not forbids later members
          let mut cut_def = false; // definitely cut
          let mut cut_pos = false; // possibly cut
          for e in 0..mi {
            if members[e].cut {
              let c = km[pi][e].and(match vm[pi][e] {
                Acc => Rej,
                Rej => Acc,
                Unspec => Unspec,
              });
              match c {
                Acc => {
                  cut_def = true;
                  cut_pos = true;
                }
                Unspec => cut_pos = true,
                Rej => {}
              }
            }
          }
          pess[pi][mi] = direct == Acc && !cut_pos;
          opt[pi][mi] = direct != Rej && !cut_def;
        }
      }
      let r = if self.assign(&pess, members) {
        Acc
      } else if self.assign(&opt, members) {
        Unspec
      } else {
        Rej
      };
      res = res.or(r);
      if res == Acc {
        return Acc;
      }
    }
    res
  }

  /// is there an assignment of every pair to a member respecting occurrence bounds?
  fn assign(&mut self, edge: &[Vec<bool>], members: &[Flat]) -> bool {
    let n = edge.len();
    let m = members.len();
    let mut count = vec![0u64; m];
    // order pairs by number of options (fewest first)
    let mut order: Vec<usize> = (0..n).collect();
    order.sort_by_key(|p| edge[*p].iter().filter(|x| **x).count());
    fn go(i: usize, order: &[usize], edge: &[Vec<bool>], members: &[Flat], count: &mut Vec<u64>, steps: &mut u64) -> bool {
      *steps += 1;
      if *steps > 200_000 {
        return false;
      }
      if i == order.len() {
        return members.iter().enumerate().all(|(mi, f)| count[mi] >= f.min);
      }
      let p = order[i];
      for mi in 0..members.len() {
        if edge[p][mi] && members[mi].max.map(|mx| count[mi] < mx).unwrap_or(true) {
          count[mi] += 1;
          if go(i + 1, order, edge, members, count, steps) {
            return true;
          }
          count[mi] -= 1;
        }
      }
      false
    }
    let mut steps = 0u64;
    let r = go(0, &order, edge, members, &mut count, &mut steps);
    let _ = m;
    if steps > 200_000 {
      self.out_of_fuel = true;
    }
    r
  }
}

/// convenience: verdict of the root rule
pub fn verdict(gs: &GS, v: &DV, json: bool) -> Tri {
  Eval::new(gs, json).root(v)
}
