//! Harness-side walks over the crate's public AST.

use cddl::ast::*;
use std::collections::{BTreeMap, BTreeSet};

pub fn ident_key(i: &Identifier) -> String {
  match i.socket {
    Some(cddl::token::SocketPlug::TYPE) => format!("${}", i.ident),
    Some(cddl::token::SocketPlug::GROUP) => format!("$${}", i.ident),
    None => i.ident.to_string(),
  }
}

struct Edges<'x> {
  from: String,
  out: &'x mut Vec<(String, String, &'static str)>,
}

impl<'x> Edges<'x> {
  fn edge(&mut self, to: &Identifier, kind: &'static str) {
    self.out.push((self.from.clone(), ident_key(to), kind));
  }
  fn gargs(&mut self, ga: &Option<GenericArgs>) {
    if let Some(ga) = ga {
      for a in &ga.args {
        self.type1(&a.arg, "generic");
      }
    }
  }
  fn type_(&mut self, t: &Type, kind: &'static str) {
    for tc in &t.type_choices {
      self.type1(&tc.type1, kind);
    }
  }
  fn type1(&mut self, t1: &Type1, kind: &'static str) {
    let kind = if t1.operator.is_some() && kind != "generic" {
      match &t1.operator.as_ref().unwrap().operator {
        RangeCtlOp::CtlOp { .. } => "ctl",
        RangeCtlOp::RangeOp { .. } => "range",
      }
    } else {
      kind
    };
    self.type2(&t1.type2, kind);
    if let Some(op) = &t1.operator {
      self.type2(&op.type2, kind);
    }
  }
  fn type2(&mut self, t2: &Type2, kind: &'static str) {
    match t2 {
      Type2::Typename {
        ident,
        generic_args,
        ..
      } => {
        let k = if generic_args.is_some() && kind == "plain" {
          "generic"
        } else {
          kind
        };
        self.edge(ident, k);
        self.gargs(generic_args);
      }
      Type2::ParenthesizedType { pt, .. } => self.type_(pt, kind),
      Type2::Unwrap {
        ident,
        generic_args,
        ..
      } => {
        self.edge(ident, "unwrap");
        self.gargs(generic_args);
      }
      Type2::ChoiceFromGroup {
        ident,
        generic_args,
        ..
      } => {
        self.edge(ident, "enum");
        self.gargs(generic_args);
      }
      Type2::ChoiceFromInlineGroup { group, .. } => self.group(group, "enum"),
      // arrays, maps and tags consume a level of data: references below them are guarded
      _ => {}
    }
  }
  fn group(&mut self, g: &Group, kind: &'static str) {
    for gc in &g.group_choices {
      for (ge, _) in &gc.group_entries {
        self.entry(ge, kind);
      }
    }
  }
  fn entry(&mut self, ge: &GroupEntry, kind: &'static str) {
    match ge {
      GroupEntry::TypeGroupname { ge, .. } => {
        self.edge(&ge.name, kind);
        self.gargs(&ge.generic_args);
      }
      GroupEntry::InlineGroup { group, .. } => self.group(group, kind),
      GroupEntry::ValueMemberKey { ge, .. } => {
        if ge.member_key.is_none() {
          self.type_(&ge.entry_type, kind);
        }
      }
    }
  }
}

/// If the rule graph has a reference cycle that is not guarded by an array, map
/// or tag constructor, return the kinds of edges on such cycles, e.g.
/// "cyclic-alias[ctl]" or "cyclic-alias[generic,plain]".
pub fn alias_cycle_class(ast: &CDDL) -> Option<String> {
  if ast.rules.len() > 150 {
    return None;
  }
  let mut edges: Vec<(String, String, &'static str)> = vec![];
  for r in &ast.rules {
    match r {
      Rule::Type { rule, .. } => {
        let mut e = Edges {
          from: ident_key(&rule.name),
          out: &mut edges,
        };
        let base = if rule.generic_params.is_some() {
          "generic"
        } else {
          "plain"
        };
        e.type_(&rule.value, base);
      }
      Rule::Group { rule, .. } => {
        let mut e = Edges {
          from: ident_key(&rule.name),
          out: &mut edges,
        };
        e.entry(&rule.entry, "group");
      }
    }
  }
  let mut names: BTreeMap<String, usize> = BTreeMap::new();
  for (a, b, _) in &edges {
    let n = names.len();
    names.entry(a.clone()).or_insert(n);
    let n = names.len();
    names.entry(b.clone()).or_insert(n);
  }
  let n = names.len();
  if n == 0 {
    return None;
  }
  let mut reach = vec![vec![false; n]; n];
  for (a, b, _) in &edges {
    reach[names[a]][names[b]] = true;
  }
  for k in 0..n {
    for i in 0..n {
      if reach[i][k] {
        for j in 0..n {
          if reach[k][j] {
            reach[i][j] = true;
          }
        }
      }
    }
  }
  let mut kinds: BTreeSet<&'static str> = BTreeSet::new();
  for (a, b, k) in &edges {
    let (i, j) = (names[a], names[b]);
    if reach[j][i] {
      // edge lies on a cycle
      kinds.insert(k);
    }
  }
  if kinds.is_empty() {
    None
  } else {
    Some(format!(
      "cyclic-alias[{}]",
      kinds.into_iter().collect::<Vec<_>>().join(",")
    ))
  }
}

pub fn alias_cycle_class_of_text(schema: &str) -> Option<String> {
  match cddl::cddl_from_str(schema, false) {
    Ok(ast) => alias_cycle_class(&ast),
    Err(_) => None,
  }
}
