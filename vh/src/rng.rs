//! Deterministic PRNG (SplitMix64 seeding + xoshiro256**). Hand-written so the
//! harness has no dependency on `rand` and every case is a pure function of
//! (VERIF_SEED, property, case index).

#[derive(Clone, Debug)]
pub struct Rng {
  s: [u64; 4],
}

fn splitmix(x: &mut u64) -> u64 {
  *x = x.wrapping_add(0x9E3779B97F4A7C15);
  let mut z = *x;
  z = (z ^ (z >> 30)).wrapping_mul(0xBF58476D1CE4E5B9);
  z = (z ^ (z >> 27)).wrapping_mul(0x94D049BB133111EB);
  z ^ (z >> 31)
}

pub fn mix(a: u64, b: u64) -> u64 {
  let mut x = a ^ b.rotate_left(32) ^ 0xD6E8FEB86659FD93;
  splitmix(&mut x)
}

pub fn hash_bytes(b: &[u8]) -> u64 {
  // FNV-1a 64 followed by a splitmix finaliser
  let mut h: u64 = 0xcbf29ce484222325;
  for &c in b {
    h ^= c as u64;
    h = h.wrapping_mul(0x100000001b3);
  }
  let mut x = h;
  splitmix(&mut x)
}

pub fn hash_str(s: &str) -> u64 {
  hash_bytes(s.as_bytes())
}

impl Rng {
  pub fn new(seed: u64) -> Rng {
    let mut x = seed;
    let s = [
      splitmix(&mut x),
      splitmix(&mut x),
      splitmix(&mut x),
      splitmix(&mut x),
    ];
    Rng { s }
  }

  pub fn for_case(seed: u64, prop: &str, idx: u64) -> Rng {
    Rng::new(mix(mix(seed, hash_str(prop)), idx))
  }

  pub fn next_u64(&mut self) -> u64 {
    let r = self.s[1].wrapping_mul(5).rotate_left(7).wrapping_mul(9);
    let t = self.s[1] << 17;
    self.s[2] ^= self.s[0];
    self.s[3] ^= self.s[1];
    self.s[1] ^= self.s[2];
    self.s[0] ^= self.s[3];
    self.s[2] ^= t;
    self.s[3] = self.s[3].rotate_left(45);
    r
  }

  /// uniform in 0..n (n > 0)
  pub fn below(&mut self, n: u64) -> u64 {
    debug_assert!(n > 0);
    // multiply-shift; bias is irrelevant for workload generation
    ((self.next_u64() as u128 * n as u128) >> 64) as u64
  }

  pub fn usize(&mut self, n: usize) -> usize {
    self.below(n as u64) as usize
  }

  /// inclusive range
  pub fn range(&mut self, lo: i64, hi: i64) -> i64 {
    debug_assert!(lo <= hi);
    lo + self.below((hi - lo) as u64 + 1) as i64
  }

  pub fn bool(&mut self) -> bool {
    self.next_u64() & 1 == 1
  }

  /// true with probability num/den
  pub fn chance(&mut self, num: u64, den: u64) -> bool {
    self.below(den) < num
  }

  pub fn pick<'a, T>(&mut self, xs: &'a [T]) -> &'a T {
    &xs[self.usize(xs.len())]
  }

  pub fn pick_str<'a>(&mut self, xs: &[&'a str]) -> &'a str {
    xs[self.usize(xs.len())]
  }

  pub fn f64(&mut self) -> f64 {
    (self.next_u64() >> 11) as f64 / (1u64 << 53) as f64
  }

  pub fn shuffle<T>(&mut self, xs: &mut [T]) {
    for i in (1..xs.len()).rev() {
      let j = self.usize(i + 1);
      xs.swap(i, j);
    }
  }

  /// pick an index according to integer weights
  pub fn weighted(&mut self, w: &[u32]) -> usize {
    let tot: u64 = w.iter().map(|x| *x as u64).sum();
    let mut r = self.below(tot.max(1));
    for (i, x) in w.iter().enumerate() {
      if r < *x as u64 {
        return i;
      }
      r -= *x as u64;
    }
    w.len() - 1
  }
}
