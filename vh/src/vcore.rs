//! Shared core of the verdict properties (C01, C02, C04, C08, C09, C10): calling the
//! validators on harness-side schema/value pairs, shrinking a disagreeing pair, and
//! building coarse seed-stable signatures.

use crate::api::{self, V};
use crate::dv::{self, DV};
use crate::gs::{self, GS};
use crate::reval::{self, Tri};
use crate::rng::Rng;

/// implementation verdict: Some(true) = Ok, Some(false) = Err(Validation), None = anything else
/// (schema rejected, document rejected, panic) — those are not verdicts on (schema, value)
pub fn impl_json(schema: &str, v: &DV) -> Option<bool> {
  match api::vjson(schema, &v.to_json(), None) {
    Ok(V::Ok) => Some(true),
    Ok(V::Invalid(_)) => Some(false),
    _ => None,
  }
}

pub fn impl_cbor_bytes(schema: &str, bytes: &[u8]) -> Option<bool> {
  match api::vcbor(schema, bytes, None) {
    Ok(V::Ok) => Some(true),
    Ok(V::Invalid(_)) => Some(false),
    _ => None,
  }
}

pub fn impl_cbor(schema: &str, v: &DV) -> Option<bool> {
  let mut r = Rng::new(0);
  impl_cbor_bytes(schema, &dv::encode(v, &dv::CANON, &mut r))
}

pub fn schema_text(g: &GS) -> String {
  gs::print_plain(g)
}

/// one-step simplifications of a value (big steps first)
pub fn shrink_value_steps(v: &DV) -> Vec<DV> {
  let mut out = vec![];
  match v {
    DV::Int(i) => {
      if *i != 0 && *i >= -(1i128 << 64) && *i < (1i128 << 64) {
        out.push(DV::Int(0));
        out.push(DV::Int(i / 2));
        if *i > 0 {
          out.push(DV::Int(i - 1));
        } else {
          out.push(DV::Int(i + 1));
        }
      }
    }
    DV::Float(f) => {
      if *f != 0.5 {
        out.push(DV::Float(0.5));
      }
    }
    DV::Text(s) => {
      if !s.is_empty() {
        out.push(DV::Text(String::new()));
        let cs: Vec<char> = s.chars().collect();
        out.push(DV::Text(cs[1..].iter().collect()));
        if cs.iter().any(|c| *c != 'a') {
          out.push(DV::Text(cs.iter().map(|_| 'a').collect()));
        }
      }
    }
    DV::Bytes(x) => {
      if !x.is_empty() {
        out.push(DV::Bytes(vec![]));
        out.push(DV::Bytes(x[1..].to_vec()));
      }
    }
    DV::Bool(true) => out.push(DV::Bool(false)),
    DV::Array(a) => {
      for x in a {
        out.push(x.clone());
      }
      for i in 0..a.len() {
        let mut c = a.clone();
        c.remove(i);
        out.push(DV::Array(c));
      }
      for i in 0..a.len() {
        for x in shrink_value_steps(&a[i]) {
          let mut c = a.clone();
          c[i] = x;
          out.push(DV::Array(c));
        }
      }
    }
    DV::Map(m) => {
      for (_, x) in m {
        out.push(x.clone());
      }
      for i in 0..m.len() {
        let mut c = m.clone();
        c.remove(i);
        out.push(DV::Map(c));
      }
      for i in 0..m.len() {
        for x in shrink_value_steps(&m[i].1) {
          let mut c = m.clone();
          c[i].1 = x;
          out.push(DV::Map(c));
        }
        for x in shrink_value_steps(&m[i].0) {
          if matches!(m[i].0, DV::Text(_)) && !matches!(x, DV::Text(_)) {
            continue;
          }
          if m.iter().any(|(k, _)| *k == x) {
            continue;
          }
          let mut c = m.clone();
          c[i].0 = x;
          out.push(DV::Map(c));
        }
      }
    }
    DV::Tag(t, x) => {
      out.push((**x).clone());
      for y in shrink_value_steps(x) {
        out.push(DV::Tag(*t, Box::new(y)));
      }
    }
    _ => {}
  }
  out
}

/// Alternately shrink schema and value while `pred(schema, value)` holds.
///
/// Plain delta debugging may *slip* from a new disagreement to a listed one of the same
/// direction. `score(schema, value)` counts the constructs of the pair that occur in listed
/// findings (0 = nothing listed is left); a step that lowers the score is adopted at once,
/// a step that keeps it is adopted only after all candidates were tried, and a step that
/// raises it never. Listed constructs that are irrelevant to the disagreement are thereby
/// removed first, relevant ones cannot be removed at all.
pub fn shrink_pair(g: &GS, v: &DV, budget: usize, pred: &mut dyn FnMut(&GS, &DV) -> bool, score: &dyn Fn(&GS, &DV) -> usize) -> (GS, DV) {
  let mut g = g.clone();
  let mut v = v.clone();
  let mut used = 0usize;
  let mut cur = score(&g, &v);
  loop {
    let mut progress = false;
    'gs: loop {
      let mut fallback: Option<GS> = None;
      for c in gs::shrink_steps(&g, true) {
        if used >= budget {
          break 'gs;
        }
        let sc = score(&c, &v);
        if sc > cur || (sc == cur && fallback.is_some()) {
          continue;
        }
        used += 1;
        if pred(&c, &v) {
          if sc < cur || cur == 0 {
            g = c;
            cur = sc;
            progress = true;
            continue 'gs;
          }
          fallback = Some(c);
        }
      }
      if let Some(c) = fallback {
        g = c;
        progress = true;
        continue 'gs;
      }
      break;
    }
    'dv: loop {
      let mut fallback: Option<DV> = None;
      for c in shrink_value_steps(&v) {
        if used >= budget {
          break 'dv;
        }
        let sc = score(&g, &c);
        if sc > cur || (sc == cur && fallback.is_some()) {
          continue;
        }
        used += 1;
        if pred(&g, &c) {
          if sc < cur || cur == 0 {
            v = c;
            cur = sc;
            progress = true;
            continue 'dv;
          }
          fallback = Some(c);
        }
      }
      if let Some(c) = fallback {
        v = c;
        progress = true;
        continue 'dv;
      }
      break;
    }
    if !progress || used >= budget {
      break;
    }
  }
  (g, v)
}

/// value-class tags of a (shrunk) document
pub fn value_tags(v: &DV) -> std::collections::BTreeSet<String> {
  let mut s = std::collections::BTreeSet::new();
  fn go(v: &DV, s: &mut std::collections::BTreeSet<String>) {
    s.insert(format!("v.{}", v.kind()));
    match v {
      DV::Array(a) => {
        if a.is_empty() {
          s.insert("v.array.empty".into());
        }
        for x in a {
          go(x, s);
        }
      }
      DV::Map(m) => {
        if m.is_empty() {
          s.insert("v.map.empty".into());
        }
        if m.len() > 1 {
          s.insert("v.map.multi".into());
        }
        for (i, (k, _)) in m.iter().enumerate() {
          if m[..i].iter().any(|(k2, _)| k2 == k) {
            s.insert("v.map.dupkey".into());
          }
        }
        for (k, x) in m {
          if !matches!(k, DV::Text(_)) {
            s.insert(format!("v.key.{}", k.kind()));
          }
          go(x, s);
        }
      }
      DV::Tag(_, x) => go(x, s),
      _ => {}
    }
  }
  go(v, &mut s);
  s
}

pub fn sig_of(direction: &str, g: &GS, v: &DV) -> String {
  let mut t: Vec<String> = gs::tags(g).into_iter().collect();
  t.extend(value_tags(v));
  format!("{}:{}", direction, t.join(","))
}

pub fn model(g: &GS, v: &DV, json: bool) -> Tri {
  reval::verdict(g, v, json)
}
