//! Seed corpora: hand-written schemas in /verif/seeds plus the repository's own fixtures.

use crate::rng::Rng;
use std::sync::OnceLock;

static SCHEMAS: OnceLock<Vec<String>> = OnceLock::new();

pub fn schemas() -> &'static Vec<String> {
  SCHEMAS.get_or_init(|| {
    let mut v = vec![];
    for f in ["/verif/seeds/schemas.txt", "/verif/seeds/interactions.txt"] {
      if let Ok(t) = std::fs::read_to_string(f) {
        for s in t.split("\n%%\n") {
          let s = s.trim_end_matches('\n');
          if !s.trim().is_empty() {
            v.push(format!("{}\n", s));
          }
        }
      }
    }
    if let Ok(rd) = std::fs::read_dir("/repo/tests/fixtures/cddl") {
      let mut paths: Vec<_> = rd.filter_map(|e| e.ok()).map(|e| e.path()).collect();
      paths.sort();
      for p in paths {
        if p.extension().map(|e| e == "cddl").unwrap_or(false) {
          if let Ok(t) = std::fs::read_to_string(&p) {
            v.push(t);
          }
        }
      }
    }
    assert!(v.len() > 50, "seed corpus missing (/verif/seeds/schemas.txt)");
    v
  })
}

static TREES: OnceLock<Vec<crate::gs::GS>> = OnceLock::new();

/// the corpus schemas that convert to derivation trees and are small enough for the
/// validator properties (interaction schemas written by hand + the smaller fixtures)
pub fn trees() -> &'static Vec<crate::gs::GS> {
  TREES.get_or_init(|| schemas().iter().filter(|s| s.len() < 1500).filter_map(|s| crate::fromast::gs_of_text(s)).filter(|g| g.rules.len() <= 12 && crate::gs::wellformed(g)).collect())
}

static SHARED: OnceLock<Vec<crate::gs::GS>> = OnceLock::new();

/// corpus trees inside the feature set shared by the JSON and CBOR validators (JSON data model,
/// the control operators of Profile::shared); `cbor_core` additionally admits byte strings, tags
/// and major types
pub fn trees_for(cbor_core: bool) -> &'static Vec<crate::gs::GS> {
  static CORE: OnceLock<Vec<crate::gs::GS>> = OnceLock::new();
  let f = move |cbor: bool| -> Vec<crate::gs::GS> {
    const CTL: &[&str] = &["lt", "le", "gt", "ge", "eq", "ne", "size", "and", "within", "default"];
    const PRE: &[&str] = &["int", "uint", "nint", "float", "float16", "float32", "float64", "float16-32", "float32-64", "number", "tstr", "text", "bool", "true", "false", "nil", "null", "any"];
    const PRE_CBOR: &[&str] = &["bstr", "bytes", "undefined"];
    trees()
      .iter()
      .filter(|g| {
        crate::gs::tags(g).iter().all(|t| {
          if let Some(c) = t.strip_prefix("ctl.") {
            return CTL.contains(&c);
          }
          if let Some(p) = t.strip_prefix("pre.") {
            return PRE.contains(&p) || (cbor && PRE_CBOR.contains(&p));
          }
          if t.starts_with("lit.bytes") || t.starts_with("tag") || t.starts_with("major") || t == "any.hash" {
            return cbor;
          }
          true
        })
      })
      .cloned()
      .collect()
  };
  if cbor_core {
    CORE.get_or_init(|| f(true))
  } else {
    SHARED.get_or_init(|| f(false))
  }
}

pub const CDDL_TOKENS: &[&str] = &[
  "=", "/=", "//=", "/", "//", ",", ":", "=>", "^", "?", "*", "+", "(", ")", "[", "]", "{", "}", "<", ">", "~", "&", "#", "#6", "#6.1", "#7.25",
  "..", "...", ".", ".size", ".eq", ".ne", ".lt", ".regexp", ".cbor", ".and", ".within", ".default", ".cat", ".abnf", ".feature", ".bits", ".join",
  "int", "uint", "tstr", "bstr", "any", "bool", "nil", "float", "a", "b", "$x", "$$g", "1", "0", "-1", "2*3", "1.5", "0x10", "\"s\"", "'b'", "h'00'",
  "b64'AA'", ";c\n", "\n", " ", "\t", "\r\n", "é", "\"", "'", "\\", ";", "\u{0}", "1e400", "18446744073709551616", "-9223372036854775809", "\"\\uD800\"",
  "\"\\u{110000}\"", "0*", "*0", "99999999999999999999*", "#6.18446744073709551616(int)", "#8", "#7.256", "h'0'", "b64'*'", ".cborseq", ".pcre",
];

/// single-edit mutation of a text at token or character granularity
pub fn mutate_text(rng: &mut Rng, s: &str) -> String {
  let chars: Vec<char> = s.chars().collect();
  let n = chars.len();
  let pos = if n == 0 { 0 } else { rng.usize(n + 1) };
  let mut out: String = chars[..pos].iter().collect();
  match rng.below(8) {
    0 => {
      // delete a char
      if pos < n {
        out.extend(chars[pos + 1..].iter());
      }
    }
    1 => {
      // insert token
      out.push_str(*rng.pick(CDDL_TOKENS));
      out.extend(chars[pos..].iter());
    }
    2 => {
      // replace char with token
      out.push_str(*rng.pick(CDDL_TOKENS));
      if pos < n {
        out.extend(chars[pos + 1..].iter());
      }
    }
    3 => {
      // delete a span
      let len = 1 + rng.usize(12);
      let end = (pos + len).min(n);
      out.extend(chars[end..].iter());
    }
    4 => {
      // duplicate a span
      let len = 1 + rng.usize(30);
      let end = (pos + len).min(n);
      out.extend(chars[pos..end].iter());
      out.extend(chars[pos..].iter());
    }
    5 => {
      // swap two adjacent chars
      if pos + 1 < n {
        out.push(chars[pos + 1]);
        out.push(chars[pos]);
        out.extend(chars[pos + 2..].iter());
      } else {
        out.extend(chars[pos..].iter());
      }
    }
    6 => {
      // truncate
    }
    _ => {
      // insert a random character
      let c = *rng.pick(&[
        'a', '0', ' ', '\n', '"', '\'', ';', '\\', '(', ')', '[', ']', '{', '}', '<', '>', '.', '-', '$', '@', '_', 'é', '😀', '\u{7f}', '\u{1}', '\u{a0}',
        '\u{fffe}', '\r',
      ]);
      out.push(c);
      out.extend(chars[pos..].iter());
    }
  }
  out
}

pub fn random_cddlish(rng: &mut Rng, ntok: usize) -> String {
  let mut s = String::new();
  for _ in 0..ntok {
    s.push_str(*rng.pick(CDDL_TOKENS));
    if rng.chance(1, 3) {
      s.push(' ');
    }
  }
  s
}
