//! G-value: data-model values for a schema tree — a heuristic member generator
//! ("valid by construction"), near-miss mutations and unrelated values. The expected
//! verdict never comes from how a value was made; it always comes from R-eval.

use crate::dv::DV;
use crate::gs::*;
use crate::rng::Rng;

pub struct Wit<'a, 'r> {
  pub gs: &'a GS,
  pub rng: &'r mut Rng,
  pub json: bool,
  fuel: u32,
}

const TEXTS: &[&str] = &["a", "b", "k", "x y", "", "é", "abc", "zz"];

impl<'a, 'r> Wit<'a, 'r> {
  pub fn new(gs: &'a GS, rng: &'r mut Rng, json: bool) -> Wit<'a, 'r> {
    Wit { gs, rng, json, fuel: 600 }
  }

  pub fn scalar(&mut self) -> DV {
    match self.rng.below(if self.json { 7 } else { 10 }) {
      0 | 1 => DV::Int(self.rng.range(-6, 8) as i128),
      2 => DV::Float(self.rng.range(-6, 6) as f64 + *self.rng.pick(&[0.5, 0.25, 0.75])),
      3 | 4 => DV::Text(self.rng.pick_str(TEXTS).to_string()),
      5 => DV::Bool(self.rng.bool()),
      6 => DV::Null,
      7 => DV::Bytes((0..self.rng.usize(4)).map(|_| self.rng.below(256) as u8).collect()),
      8 => DV::Undefined,
      _ => {
        let b = *self.rng.pick(crate::dv::BOUNDARY_INTS);
        DV::Int(if b >= -(1i128 << 64) && b < (1i128 << 64) { b } else { 0 })
      }
    }
  }

  pub fn any(&mut self, d: usize) -> DV {
    if d == 0 || self.rng.chance(1, 2) {
      return self.scalar();
    }
    match self.rng.below(if self.json { 2 } else { 3 }) {
      0 => DV::Array((0..self.rng.usize(3)).map(|_| self.any(d - 1)).collect()),
      1 => {
        let n = self.rng.usize(3);
        let mut m: Vec<(DV, DV)> = vec![];
        for _ in 0..n {
          let k = if self.json || self.rng.chance(2, 3) { DV::Text(self.rng.pick_str(TEXTS).to_string()) } else { DV::Int(self.rng.range(-3, 5) as i128) };
          if m.iter().any(|(x, _)| *x == k) {
            continue;
          }
          let v = self.any(d - 1);
          m.push((k, v));
        }
        DV::Map(m)
      }
      _ => DV::Tag(*self.rng.pick(&[0u64, 1, 2, 24, 32, 1000]), Box::new(self.any(d - 1))),
    }
  }

  fn lit(l: &GLit) -> DV {
    match l.value() {
      GLit::Uint(n) => DV::Int(*n as i128),
      GLit::Nint(n) => DV::Int(*n),
      GLit::Float(f) => DV::Float(*f),
      GLit::Text(s) => DV::Text(s.clone()),
      GLit::Bytes(_, b) => DV::Bytes(b.clone()),
      GLit::Raw(..) => unreachable!(),
    }
  }

  fn prelude(&mut self, n: &str, d: usize) -> Option<DV> {
    Some(match n {
      "any" => self.any(d.min(2)),
      "uint" => DV::Int(self.rng.range(0, 8) as i128),
      "nint" => DV::Int(self.rng.range(-8, -1) as i128),
      "int" | "integer" => DV::Int(self.rng.range(-6, 8) as i128),
      "unsigned" => DV::Int(self.rng.range(0, 8) as i128),
      "float" | "float16" | "float32" | "float64" | "float16-32" | "float32-64" => DV::Float(self.rng.range(-6, 6) as f64 + 0.5),
      "number" => {
        if self.rng.bool() {
          DV::Int(self.rng.range(-6, 8) as i128)
        } else {
          DV::Float(self.rng.range(-6, 6) as f64 + 0.25)
        }
      }
      "bstr" | "bytes" => DV::Bytes((0..self.rng.usize(4)).map(|_| self.rng.below(256) as u8).collect()),
      "tstr" | "text" => DV::Text(self.rng.pick_str(TEXTS).to_string()),
      "bool" => DV::Bool(self.rng.bool()),
      "true" => DV::Bool(true),
      "false" => DV::Bool(false),
      "nil" | "null" => DV::Null,
      "undefined" => DV::Undefined,
      "tdate" => DV::Tag(0, Box::new(DV::Text("2020-01-01T00:00:00Z".into()))),
      "time" => DV::Tag(1, Box::new(DV::Int(self.rng.range(0, 100000) as i128))),
      "biguint" => DV::Tag(2, Box::new(DV::Bytes(vec![1, 0]))),
      "bignint" => DV::Tag(3, Box::new(DV::Bytes(vec![1, 0]))),
      "uri" => DV::Tag(32, Box::new(DV::Text("http://a.example/".into()))),
      _ => return None,
    })
  }

  pub fn of_type(&mut self, t: &GType, d: usize) -> Option<DV> {
    if self.fuel == 0 {
      return None;
    }
    self.fuel -= 1;
    for _ in 0..3 {
      let c = &t.choices[self.rng.usize(t.choices.len())];
      if let Some(v) = self.of_t1(c, d) {
        return Some(v);
      }
    }
    None
  }

  fn lit_int(t: &GType2) -> Option<i128> {
    match t {
      GType2::Lit(l) => match l.value() {
        GLit::Uint(n) => Some(*n as i128),
        GLit::Nint(n) => Some(*n),
        _ => None,
      },
      _ => None,
    }
  }

  fn of_t1(&mut self, t: &GType1, d: usize) -> Option<DV> {
    match &t.op {
      None => self.of_t2(&t.t2, d),
      Some((GOp::Range { incl }, hi)) => {
        if let (Some(a), Some(c)) = (Self::lit_int(&t.t2), Self::lit_int(hi)) {
          let top = if *incl { c } else { c - 1 };
          if top < a {
            return None;
          }
          return Some(DV::Int(match self.rng.below(4) {
            0 => a,
            1 => top,
            _ => a + self.rng.below((top - a) as u64 + 1) as i128,
          }));
        }
        if let (GType2::Lit(l), GType2::Lit(h)) = (&t.t2, hi) {
          if let (GLit::Float(a), GLit::Float(c)) = (l.value(), h.value()) {
            return Some(DV::Float(if self.rng.bool() { *a } else { (a + c) / 2.0 }));
          }
        }
        None
      }
      Some((GOp::Ctl(c), rhs)) => match c.as_str() {
        "eq" => match rhs {
          GType2::Lit(l) => Some(Self::lit(l)),
          _ => None,
        },
        "size" => {
          let n = match rhs {
            GType2::Lit(l) => match l.value() {
              GLit::Uint(n) => *n as usize,
              _ => return None,
            },
            GType2::Paren(t) => Self::lit_int(&t.choices[0].t2).unwrap_or(0) as usize + self.rng.usize(2),
            _ => return None,
          };
          match &t.t2 {
            GType2::Name(x, _) if x == "bstr" || x == "bytes" => Some(DV::Bytes(vec![7; n])),
            GType2::Name(x, _) if x == "uint" => Some(DV::Int(if n == 0 { 0 } else { 1i128 << (8 * (n.min(8) - 1)) })),
            _ => {
              // byte length n: ASCII, or two-byte characters (byte count != character count)
              if n >= 2 && self.rng.bool() {
                Some(DV::Text(format!("{}{}", "é".repeat(n / 2), if n % 2 == 1 { "a" } else { "" })))
              } else {
                Some(DV::Text("abcdefgh"[..n.min(8)].to_string()))
              }
            }
          }
        }
        "lt" | "le" | "gt" | "ge" | "ne" => {
          let n = Self::lit_int(rhs);
          match (n, c.as_str()) {
            (Some(n), "lt") => Some(DV::Int(n - 1 - self.rng.below(2) as i128)),
            (Some(n), "le") => Some(DV::Int(n - self.rng.below(2) as i128)),
            (Some(n), "gt") => Some(DV::Int(n + 1 + self.rng.below(2) as i128)),
            (Some(n), "ge") => Some(DV::Int(n + self.rng.below(2) as i128)),
            _ => self.of_t2(&t.t2, d),
          }
        }
        _ => self.of_t2(&t.t2, d),
      },
    }
  }

  fn rules_named(&self, n: &str, group: bool) -> Vec<&'a GRule> {
    self.gs.rules.iter().filter(|r| r.name == n && matches!(r.body, GBody::Group(_)) == group).collect()
  }

  fn of_t2(&mut self, t: &GType2, d: usize) -> Option<DV> {
    if self.fuel == 0 {
      return None;
    }
    self.fuel -= 1;
    match t {
      GType2::Lit(l) => Some(Self::lit(l)),
      GType2::Any => Some(self.any(d.min(2))),
      GType2::Paren(t) => self.of_type(t, d),
      GType2::Name(n, args) => {
        let defs = self.rules_named(n, false);
        if !defs.is_empty() {
          if d == 0 {
            return None;
          }
          let r = defs[self.rng.usize(defs.len())];
          if let GBody::Type(t) = &r.body {
            if r.params.len() != args.len() {
              return None;
            }
            if args.is_empty() {
              return self.of_type(t, d - 1);
            }
            // instantiate by textual substitution through the evaluator's helper is private: do a cheap local one
            let inst = subst_type(t, &r.params, args);
            return self.of_type(&inst, d - 1);
          }
          return None;
        }
        if args.is_empty() {
          return self.prelude(n, d);
        }
        None
      }
      GType2::Array(g) => {
        let c = &g.choices[self.rng.usize(g.choices.len())];
        let mut out = vec![];
        self.seq(c, d, &mut out, 0)?;
        Some(DV::Array(out))
      }
      GType2::Map(g) => {
        let c = &g.choices[self.rng.usize(g.choices.len())];
        let mut out: Vec<(DV, DV)> = vec![];
        self.members(c, d, &mut out, 0)?;
        Some(DV::Map(out))
      }
      GType2::Tag(c, t) => {
        let n = match c {
          Some(GTagC::Lit(n)) => *n,
          _ => 99,
        };
        Some(DV::Tag(n, Box::new(self.of_type(t, d)?)))
      }
      GType2::Major(mt, c) => Some(match (mt, c) {
        (0, _) => DV::Int(self.rng.range(0, 30) as i128),
        (1, _) => DV::Int(self.rng.range(-30, -1) as i128),
        (2, _) => DV::Bytes(vec![1, 2]),
        (3, _) => DV::Text("t".into()),
        (4, _) => DV::Array(vec![]),
        (5, _) => DV::Map(vec![]),
        (6, _) => DV::Tag(5, Box::new(DV::Int(1))),
        (7, Some(GTagC::Lit(20))) => DV::Bool(false),
        (7, Some(GTagC::Lit(21))) => DV::Bool(true),
        (7, Some(GTagC::Lit(22))) => DV::Null,
        (7, Some(GTagC::Lit(23))) => DV::Undefined,
        (7, Some(GTagC::Lit(25))) | (7, Some(GTagC::Lit(26))) | (7, Some(GTagC::Lit(27))) => DV::Float(1.5),
        (7, Some(GTagC::Lit(m))) if *m < 256 && !(24..32).contains(m) => DV::Simple(*m as u8),
        (7, None) => DV::Bool(true),
        _ => return None,
      }),
      GType2::EnumInline(g) => {
        let mut tys = vec![];
        self.enum_types_group(g, 0, &mut tys);
        if tys.is_empty() {
          return None;
        }
        let t = tys[self.rng.usize(tys.len())].clone();
        self.of_type(&t, d)
      }
      GType2::EnumName(n, args) => {
        let mut tys = vec![];
        self.enum_types_entry(&GEntry::Name { occ: None, name: n.clone(), args: args.clone() }, 0, &mut tys);
        if tys.is_empty() {
          return None;
        }
        let t = tys[self.rng.usize(tys.len())].clone();
        self.of_type(&t, d)
      }
      GType2::Unwrap(..) => None,
    }
  }

  /// the entry types a choice-from-group `&` offers: every entry of every group choice, through
  /// inline groups and references to (possibly generic) group rules
  fn enum_types_group(&mut self, g: &GGroup, depth: usize, out: &mut Vec<GType>) {
    for c in &g.choices {
      for e in &c.entries {
        self.enum_types_entry(e, depth, out);
      }
    }
  }

  fn enum_types_entry(&mut self, e: &GEntry, depth: usize, out: &mut Vec<GType>) {
    if depth > 6 {
      return;
    }
    match e {
      GEntry::Val { ty, .. } => {
        // a lone group name is a group reference
        if let Some(GType1 { t2: GType2::Name(n, a), op: None }) = ty.single() {
          if self.rules_named(n, false).is_empty() && !self.rules_named(n, true).is_empty() {
            self.enum_types_entry(&GEntry::Name { occ: None, name: n.clone(), args: a.clone() }, depth + 1, out);
            return;
          }
        }
        out.push(ty.clone());
      }
      GEntry::Inline { group, .. } => self.enum_types_group(group, depth + 1, out),
      GEntry::Name { name, args, .. } => {
        let defs: Vec<GRule> = self.rules_named(name, true).into_iter().cloned().collect();
        for r in defs {
          if let GBody::Group(e2) = &r.body {
            if r.params.is_empty() {
              self.enum_types_entry(e2, depth + 1, out);
            } else if r.params.len() == args.len() {
              let wrapped = GType { choices: vec![t1(GType2::Array(GGroup { choices: vec![GChoice { entries: vec![e2.clone()] }] }))] };
              let inst = subst_type(&wrapped, &r.params, args);
              if let GType2::Array(g) = &inst.choices[0].t2 {
                self.enum_types_group(g, depth + 1, out);
              }
            }
          }
        }
      }
    }
  }

  fn count(&mut self, occ: &Option<GOcc>) -> u64 {
    let (min, max) = GOcc::bounds(occ);
    let hi = max.unwrap_or(min + 2).min(min + 2);
    min + self.rng.below(hi - min + 1)
  }

  fn seq(&mut self, c: &GChoice, d: usize, out: &mut Vec<DV>, depth: usize) -> Option<()> {
    if depth > 5 || out.len() > 12 {
      return None;
    }
    for e in &c.entries {
      match e {
        GEntry::Val { occ, ty, .. } => {
          for _ in 0..self.count(occ) {
            // a lone group name is a group reference
            if let Some(GType1 { t2: GType2::Name(n, a), op: None }) = ty.single() {
              if a.is_empty() && self.rules_named(n, false).is_empty() && !self.rules_named(n, true).is_empty() {
                self.seq_group_rule(n, d, out, depth)?;
                continue;
              }
            }
            out.push(self.of_type(ty, d.saturating_sub(1))?);
          }
        }
        GEntry::Name { occ, name, args } => {
          for _ in 0..self.count(occ) {
            if !self.rules_named(name, true).is_empty() && args.is_empty() {
              self.seq_group_rule(name, d, out, depth)?;
            } else if let Some(c) = self.instantiate_group(name, args) {
              self.seq(&c, d, out, depth + 1)?;
            } else {
              out.push(self.of_t2(&GType2::Name(name.clone(), args.clone()), d.saturating_sub(1))?);
            }
          }
        }
        GEntry::Inline { occ, group } => {
          for _ in 0..self.count(occ) {
            let ch = &group.choices[self.rng.usize(group.choices.len())];
            self.seq(ch, d, out, depth + 1)?;
          }
        }
      }
    }
    Some(())
  }

  /// `name<args>` where `name` is a generic group rule: its entry with the parameters substituted
  fn instantiate_group(&mut self, name: &str, args: &[GType1]) -> Option<GChoice> {
    let defs = self.rules_named(name, true);
    let defs: Vec<_> = defs.into_iter().filter(|r| r.params.len() == args.len() && !args.is_empty()).collect();
    if defs.is_empty() {
      return None;
    }
    let r = defs[self.rng.usize(defs.len())];
    if let GBody::Group(e) = &r.body {
      let wrapped = GType { choices: vec![t1(GType2::Array(GGroup { choices: vec![GChoice { entries: vec![e.clone()] }] }))] };
      let inst = subst_type(&wrapped, &r.params, args);
      if let GType2::Array(g) = &inst.choices[0].t2 {
        return g.choices.first().cloned();
      }
    }
    None
  }

  fn seq_group_rule(&mut self, n: &str, d: usize, out: &mut Vec<DV>, depth: usize) -> Option<()> {
    let defs = self.rules_named(n, true);
    let r = defs[self.rng.usize(defs.len())];
    if let GBody::Group(e) = &r.body {
      let c = GChoice { entries: vec![e.clone()] };
      return self.seq(&c, d, out, depth + 1);
    }
    None
  }

  fn members(&mut self, c: &GChoice, d: usize, out: &mut Vec<(DV, DV)>, depth: usize) -> Option<()> {
    if depth > 5 || out.len() > 8 {
      return None;
    }
    for e in &c.entries {
      match e {
        GEntry::Val { occ, key, ty } => {
          let k = match key {
            None => {
              if let Some(GType1 { t2: GType2::Name(n, a), op: None }) = ty.single() {
                if a.is_empty() && !self.rules_named(n, true).is_empty() {
                  for _ in 0..self.count(occ) {
                    self.members_group_rule(n, d, out, depth)?;
                  }
                  continue;
                }
              }
              return None;
            }
            Some(k) => k,
          };
          for _ in 0..self.count(occ) {
            let kv = match k {
              GKey::Bare(n) => DV::Text(n.clone()),
              GKey::Value(l) => Self::lit(l),
              GKey::Type1 { t1, .. } => self.of_t1(t1, 1)?,
            };
            if out.iter().any(|(x, _)| *x == kv) {
              continue; // keep keys distinct (duplicates are injected by the mutator when wanted)
            }
            let v = self.of_type(ty, d.saturating_sub(1))?;
            out.push((kv, v));
          }
        }
        GEntry::Name { occ, name, args } => {
          for _ in 0..self.count(occ) {
            if !args.is_empty() {
              if let Some(c) = self.instantiate_group(name, args) {
                self.members(&c, d, out, depth + 1)?;
                continue;
              }
            }
            self.members_group_rule(name, d, out, depth)?;
          }
        }
        GEntry::Inline { occ, group } => {
          for _ in 0..self.count(occ) {
            let ch = &group.choices[self.rng.usize(group.choices.len())];
            self.members(ch, d, out, depth + 1)?;
          }
        }
      }
    }
    Some(())
  }

  fn members_group_rule(&mut self, n: &str, d: usize, out: &mut Vec<(DV, DV)>, depth: usize) -> Option<()> {
    let defs = self.rules_named(n, true);
    if defs.is_empty() {
      return None;
    }
    let r = defs[self.rng.usize(defs.len())];
    if let GBody::Group(e) = &r.body {
      let c = GChoice { entries: vec![e.clone()] };
      return self.members(&c, d, out, depth + 1);
    }
    None
  }

  /// a heuristic member of the root type
  pub fn root(&mut self) -> Option<DV> {
    let root = self.gs.rules.iter().find(|r| matches!(r.body, GBody::Type(_)) && r.params.is_empty())?;
    if let GBody::Type(t) = &root.body {
      let t = t.clone();
      return self.of_type(&t, 4);
    }
    None
  }
}

/// cheap generic instantiation (parameters that are whole type1s or operands)
pub fn subst_type(t: &GType, ps: &[String], args: &[GType1]) -> GType {
  let mut g = GS { rules: vec![GRule { name: "_".into(), params: vec![], assign: Assign::Eq, body: GBody::Type(t.clone()) }] };
  {
    let mut t2 = |x: &mut GType2| {
      if let GType2::Name(n, a) = x {
        if a.is_empty() {
          if let Some(i) = ps.iter().position(|p| p == n) {
            *x = match &args[i].op {
              None => args[i].t2.clone(),
              Some(_) => GType2::Paren(GType { choices: vec![args[i].clone()] }),
            };
          }
        }
      }
    };
    let mut t1f = |_: &mut GType1| {};
    let mut en = |e: &mut GEntry| {
      if let GEntry::Name { occ, name, args: a } = e {
        if a.is_empty() {
          if let Some(i) = ps.iter().position(|p| p == name) {
            *e = GEntry::Val { occ: occ.clone(), key: None, ty: GType { choices: vec![args[i].clone()] } };
          }
        }
      }
    };
    VisitMut { t2: &mut t2, t1: &mut t1f, entry: &mut en }.gs(&mut g);
  }
  match g.rules.remove(0).body {
    GBody::Type(t) => t,
    _ => unreachable!(),
  }
}

// ---------------------------------------------------------------------------
// near misses

fn count_nodes(v: &DV) -> usize {
  match v {
    DV::Array(a) => 1 + a.iter().map(count_nodes).sum::<usize>(),
    DV::Map(m) => 1 + m.iter().map(|(k, x)| count_nodes(k) + count_nodes(x)).sum::<usize>(),
    DV::Tag(_, x) => 1 + count_nodes(x),
    _ => 1,
  }
}

fn edit_at(v: &mut DV, mut k: usize, rng: &mut Rng, json: bool) -> Option<usize> {
  if k == 0 {
    mutate_node(v, rng, json);
    return None;
  }
  k -= 1;
  match v {
    DV::Array(a) => {
      for x in a.iter_mut() {
        match edit_at(x, k, rng, json) {
          None => return None,
          Some(r) => k = r,
        }
      }
      Some(k)
    }
    DV::Map(m) => {
      for (key, x) in m.iter_mut() {
        if !json {
          match edit_at(key, k, rng, json) {
            None => return None,
            Some(r) => k = r,
          }
        } else if k == 0 {
          // JSON keys stay text
          if let DV::Text(s) = key {
            s.push('x');
          }
          return None;
        } else {
          k -= 1;
        }
        match edit_at(x, k, rng, json) {
          None => return None,
          Some(r) => k = r,
        }
      }
      Some(k)
    }
    DV::Tag(_, x) => edit_at(x, k, rng, json),
    _ => Some(k),
  }
}

fn other_scalar(v: &DV, rng: &mut Rng, json: bool) -> DV {
  loop {
    let c = match rng.below(if json { 6 } else { 8 }) {
      0 => DV::Int(rng.range(-6, 8) as i128),
      1 => DV::Float(rng.range(-6, 6) as f64 + 0.5),
      2 => DV::Text(rng.pick_str(TEXTS).to_string()),
      3 => DV::Bool(rng.bool()),
      4 => DV::Null,
      5 => DV::Array(vec![]),
      6 => DV::Bytes(vec![1]),
      _ => DV::Undefined,
    };
    if c.kind() != v.kind() {
      return c;
    }
  }
}

fn mutate_node(v: &mut DV, rng: &mut Rng, json: bool) {
  match v {
    DV::Int(i) => match rng.below(if json { 4 } else { 6 }) {
      0 => *i += 1,
      1 => *i -= 1,
      4 | 5 => {
        let b = *rng.pick(crate::dv::BOUNDARY_INTS);
        if b >= -(1i128 << 64) && b < (1i128 << 64) {
          *i = b;
        }
      }
      2 => *i = -*i - if rng.bool() { 1 } else { 0 },
      _ => *v = other_scalar(v, rng, json),
    },
    DV::Float(f) => {
      if rng.bool() {
        *f += 1.0
      } else {
        *v = other_scalar(v, rng, json)
      }
    }
    DV::Text(s) => match rng.below(4) {
      0 => s.push('z'),
      3 => s.push('é'),
      1 => {
        s.pop();
      }
      _ => *v = other_scalar(v, rng, json),
    },
    DV::Bytes(b) => {
      if rng.bool() {
        b.push(0)
      } else {
        *v = other_scalar(v, rng, json)
      }
    }
    DV::Bool(x) => {
      if rng.bool() {
        *x = !*x
      } else {
        *v = other_scalar(v, rng, json)
      }
    }
    DV::Null | DV::Undefined | DV::Simple(_) => *v = other_scalar(v, rng, json),
    DV::Array(a) => match rng.below(5) {
      0 if !a.is_empty() => {
        let i = rng.usize(a.len());
        a.remove(i);
      }
      1 if !a.is_empty() => {
        let i = rng.usize(a.len());
        let x = a[i].clone();
        a.insert(i, x);
      }
      2 if a.len() > 1 => {
        let i = rng.usize(a.len() - 1);
        a.swap(i, i + 1);
      }
      3 => a.push(DV::Int(rng.range(-3, 5) as i128)),
      _ => a.push(DV::Text("extra".into())),
    },
    DV::Map(m) => match rng.below(5) {
      0 if !m.is_empty() => {
        let i = rng.usize(m.len());
        m.remove(i);
      }
      1 if !m.is_empty() && !json => {
        // duplicate key (CBOR only)
        let i = rng.usize(m.len());
        let x = m[i].clone();
        m.push(x);
      }
      2 if m.len() > 1 => {
        let i = rng.usize(m.len() - 1);
        m.swap(i, i + 1);
      }
      _ => {
        let k = DV::Text(format!("{}{}", rng.pick_str(TEXTS), rng.below(3)));
        if !m.iter().any(|(x, _)| *x == k) {
          m.push((k, DV::Int(rng.range(-3, 5) as i128)));
        }
      }
    },
    DV::Tag(t, _) => {
      if rng.bool() {
        *t = t.wrapping_add(1)
      } else {
        *v = other_scalar(v, rng, json)
      }
    }
  }
}

/// one or two single edits somewhere in the value
pub fn near_miss(v: &DV, rng: &mut Rng, json: bool) -> DV {
  let mut c = v.clone();
  let edits = 1 + rng.usize(2);
  for _ in 0..edits {
    let n = count_nodes(&c);
    let k = rng.usize(n);
    edit_at(&mut c, k, rng, json);
  }
  c
}

/// every integer of the value fits a CBOR head (-2^64 ..= 2^64-1)
pub fn cbor_encodable(v: &DV) -> bool {
  match v {
    DV::Int(i) => *i >= -(1i128 << 64) && *i < (1i128 << 64),
    DV::Array(a) => a.iter().all(cbor_encodable),
    DV::Map(m) => m.iter().all(|(k, x)| cbor_encodable(k) && cbor_encodable(x)),
    DV::Tag(_, x) => cbor_encodable(x),
    _ => true,
  }
}
