//! Harness-side walk over the crate's public AST producing a plain tree of
//! (kind, span, children) nodes — the input of the span invariants (C15).

use cddl::ast::*;

#[derive(Debug, Clone)]
pub struct N {
  pub kind: &'static str,
  /// (start, end, line)
  pub span: Option<(usize, usize, usize)>,
  pub children: Vec<N>,
  /// identifiers: the text the span must cover (socket prefix + name)
  pub ident_text: Option<String>,
}

fn n(kind: &'static str, span: Span, children: Vec<N>) -> N {
  N { kind, span: Some(span), children, ident_text: None }
}

fn ns(kind: &'static str, children: Vec<N>) -> N {
  N { kind, span: None, children, ident_text: None }
}

pub fn ident(i: &Identifier) -> N {
  let t = crate::skel::ident(i);
  N { kind: "Identifier", span: Some(i.span), children: vec![], ident_text: Some(t) }
}

fn gparams(p: &Option<GenericParams>) -> Vec<N> {
  match p {
    None => vec![],
    Some(p) => vec![n("GenericParams", p.span, p.params.iter().map(|x| ident(&x.param)).collect())],
  }
}

fn gargs(a: &Option<GenericArgs>) -> Vec<N> {
  match a {
    None => vec![],
    Some(a) => vec![n("GenericArgs", a.span, a.args.iter().map(|x| type1(&x.arg)).collect())],
  }
}

pub fn type_(t: &Type) -> N {
  n("Type", t.span, t.type_choices.iter().map(|c| type1(&c.type1)).collect())
}

pub fn type1(t: &Type1) -> N {
  let mut ch = vec![type2(&t.type2)];
  if let Some(o) = &t.operator {
    let sp = match &o.operator {
      RangeCtlOp::RangeOp { span, .. } => *span,
      RangeCtlOp::CtlOp { span, .. } => *span,
    };
    ch.push(n("RangeCtlOp", sp, vec![]));
    ch.push(type2(&o.type2));
  }
  n("Type1", t.span, ch)
}

pub fn type2(t: &Type2) -> N {
  use Type2::*;
  match t {
    IntValue { span, .. } => n("IntValue", *span, vec![]),
    UintValue { span, .. } => n("UintValue", *span, vec![]),
    FloatValue { span, .. } => n("FloatValue", *span, vec![]),
    TextValue { span, .. } => n("TextValue", *span, vec![]),
    UTF8ByteString { span, .. } => n("UTF8ByteString", *span, vec![]),
    B16ByteString { span, .. } => n("B16ByteString", *span, vec![]),
    B64ByteString { span, .. } => n("B64ByteString", *span, vec![]),
    Typename { ident: i, generic_args, span } => {
      let mut c = vec![ident(i)];
      c.extend(gargs(generic_args));
      n("Typename", *span, c)
    }
    ParenthesizedType { pt, span, .. } => n("ParenthesizedType", *span, vec![type_(pt)]),
    Map { group: g, span, .. } => n("Map", *span, vec![group(g)]),
    Array { group: g, span, .. } => n("Array", *span, vec![group(g)]),
    Unwrap { ident: i, generic_args, span, .. } => {
      let mut c = vec![ident(i)];
      c.extend(gargs(generic_args));
      n("Unwrap", *span, c)
    }
    ChoiceFromInlineGroup { group: g, span, .. } => n("ChoiceFromInlineGroup", *span, vec![group(g)]),
    ChoiceFromGroup { ident: i, generic_args, span, .. } => {
      let mut c = vec![ident(i)];
      c.extend(gargs(generic_args));
      n("ChoiceFromGroup", *span, c)
    }
    TaggedData { t, span, .. } => n("TaggedData", *span, vec![type_(t)]),
    DataMajorType { span, .. } => n("DataMajorType", *span, vec![]),
    Any { span } => n("Any", *span, vec![]),
  }
}

pub fn group(g: &Group) -> N {
  n(
    "Group",
    g.span,
    g.group_choices.iter().map(|c| n("GroupChoice", c.span, c.group_entries.iter().map(|(e, _)| entry(e)).collect())).collect(),
  )
}

fn occ(o: &Option<Occurrence>) -> Vec<N> {
  match o {
    None => vec![],
    Some(o) => {
      let sp = match o.occur {
        Occur::Exact { span, .. } => span,
        Occur::ZeroOrMore { span } => span,
        Occur::OneOrMore { span } => span,
        Occur::Optional { span } => span,
      };
      vec![n("Occur", sp, vec![])]
    }
  }
}

pub fn entry(e: &GroupEntry) -> N {
  match e {
    GroupEntry::ValueMemberKey { ge, span, .. } => {
      let mut c = occ(&ge.occur);
      match &ge.member_key {
        None => {}
        Some(MemberKey::Type1 { t1, span, .. }) => c.push(n("MemberKey::Type1", *span, vec![type1(t1)])),
        Some(MemberKey::Bareword { ident: i, span, .. }) => c.push(n("MemberKey::Bareword", *span, vec![ident(i)])),
        Some(MemberKey::Value { span, .. }) => c.push(n("MemberKey::Value", *span, vec![])),
        Some(MemberKey::NonMemberKey { non_member_key, .. }) => match non_member_key {
          NonMemberKey::Group(g) => c.push(ns("NonMemberKey", vec![group(g)])),
          NonMemberKey::Type(t) => c.push(ns("NonMemberKey", vec![type_(t)])),
        },
      }
      c.push(type_(&ge.entry_type));
      n("GroupEntry::ValueMemberKey", *span, c)
    }
    GroupEntry::TypeGroupname { ge, span, .. } => {
      let mut c = occ(&ge.occur);
      c.push(ident(&ge.name));
      c.extend(gargs(&ge.generic_args));
      n("GroupEntry::TypeGroupname", *span, c)
    }
    GroupEntry::InlineGroup { occur, group: g, span, .. } => {
      let mut c = occ(occur);
      c.push(group(g));
      n("GroupEntry::InlineGroup", *span, c)
    }
  }
}

pub fn rule(r: &Rule) -> N {
  match r {
    Rule::Type { rule, span, .. } => {
      let mut c = vec![ident(&rule.name)];
      c.extend(gparams(&rule.generic_params));
      c.push(type_(&rule.value));
      n("Rule::Type", *span, c)
    }
    Rule::Group { rule, span, .. } => {
      let mut c = vec![ident(&rule.name)];
      c.extend(gparams(&rule.generic_params));
      c.push(entry(&rule.entry));
      n("Rule::Group", *span, c)
    }
  }
}

pub fn doc(c: &CDDL) -> N {
  ns("CDDL", c.rules.iter().map(rule).collect())
}
