use std::collections::HashSet;
use std::time::Instant;
use vh::props;
use vh::sup::{self, ChildArgs, RunOpts, Tier};

fn arg_val(args: &[String], name: &str) -> Option<String> {
  args
    .iter()
    .position(|a| a == name)
    .and_then(|i| args.get(i + 1).cloned())
}

fn main() {
  let args: Vec<String> = std::env::args().collect();
  if args.len() < 3 {
    eprintln!("usage: vh run <Cxx> [--tier quick|thorough] [--seed N] [--case N]\n       vh child <Cxx> ...");
    std::process::exit(2);
  }
  let mode = args[1].as_str();
  if mode == "probe" {
    probe(&args[2..]);
    return;
  }
  let def = match props::find(&args[2]) {
    Some(d) => d,
    None => {
      eprintln!("unknown property {}", args[2]);
      std::process::exit(2);
    }
  };
  let tier = Tier::parse(
    &arg_val(&args, "--tier")
      .or_else(|| std::env::var("VERIF_TIER").ok())
      .unwrap_or_else(|| "quick".into()),
  );
  let seed: u64 = arg_val(&args, "--seed")
    .or_else(|| std::env::var("VERIF_SEED").ok())
    .and_then(|s| s.trim().parse().ok())
    .unwrap_or(1);
  match mode {
    "child" => {
      set_limits();
      let skip: HashSet<u64> = arg_val(&args, "--skip")
        .unwrap_or_default()
        .split(',')
        .filter_map(|s| s.parse().ok())
        .collect();
      let a = ChildArgs {
        seed,
        tier,
        from: arg_val(&args, "--from").and_then(|s| s.parse().ok()).unwrap_or(0),
        to: arg_val(&args, "--to").and_then(|s| s.parse().ok()).unwrap_or(0),
        step: arg_val(&args, "--step").and_then(|s| s.parse().ok()).unwrap_or(1),
        skip,
        out: arg_val(&args, "--out").unwrap_or_else(|| "/dev/null".into()),
        verbose: args.iter().any(|a| a == "--verbose"),
      };
      std::process::exit(sup::child_main(def, a));
    }
    "run" => {
      let started = Instant::now();
      let mut only_case: Option<u64> = arg_val(&args, "--case").and_then(|s| s.parse().ok());
      let mut seed = seed;
      let mut tier = tier;
      if let Some(path) = arg_val(&args, "--replay") {
        let txt = std::fs::read_to_string(&path).unwrap_or_else(|e| {
          eprintln!("cannot read replay file {}: {}", path, e);
          std::process::exit(2);
        });
        let v: serde_json::Value = serde_json::from_str(&txt).expect("replay file is JSON");
        only_case = v["case"].as_u64();
        seed = v["seed"].as_u64().unwrap_or(seed);
        tier = Tier::parse(v["tier"].as_str().unwrap_or("quick"));
        println!("replaying {} case {:?} seed {} tier {}", def.id, only_case, seed, tier.name());
      }
      let o = RunOpts { seed, tier, only_case };
      if let Some(c) = only_case {
        // replay a single case in a child so that crashes are still attributed
        let exe = std::env::current_exe().unwrap();
        let out = format!("{}/target/scratch/replay-{}.json", sup::VERIF, std::process::id());
        std::fs::create_dir_all(format!("{}/target/scratch", sup::VERIF)).ok();
        let st = std::process::Command::new(exe)
          .args(["child", def.id, "--seed", &seed.to_string(), "--tier", tier.name()])
          .args(["--from", &c.to_string(), "--to", &(c + 1).to_string(), "--step", "1"])
          .args(["--out", &out, "--verbose"])
          .status()
          .expect("spawn");
        let txt = std::fs::read_to_string(&out).unwrap_or_default();
        let _ = std::fs::remove_file(&out);
        let v: serde_json::Value = serde_json::from_str(&txt).unwrap_or(serde_json::Value::Null);
        println!("child status: {:?}", st);
        println!("{}", serde_json::to_string_pretty(&v).unwrap());
        let bad = !st.success() || v["violations"].as_array().map(|a| !a.is_empty()).unwrap_or(false);
        if bad {
          println!("VIOLATION property={} replay=case:{}", def.id, c);
        }
        std::process::exit(if bad { 1 } else { 0 });
      }
      let (sum, crashes) = sup::supervise(def, &o);
      let code = sup::finish(def, &o, sum, crashes, started);
      std::process::exit(code);
    }
    _ => {
      eprintln!("unknown mode {}", mode);
      std::process::exit(2);
    }
  }
}

fn set_limits() {
  if cfg!(miri) || std::env::var("VH_MIRI").is_ok() {
    return; // the interpreter has no setrlimit
  }
  // address-space backstop so that a hostile allocation fails fast instead of
  // depending on the machine's memory; core dumps off
  unsafe {
    // (not under AddressSanitizer / ThreadSanitizer, whose shadow memory needs the whole address space; there
    // max_allocation_size_mb bounds single requests instead)
    if std::env::var("ASAN_OPTIONS").is_err() && std::env::var("TSAN_OPTIONS").is_err() {
      let lim = libc::rlimit { rlim_cur: 12 << 30, rlim_max: 12 << 30 };
      libc::setrlimit(libc::RLIMIT_AS, &lim);
    }
    let z = libc::rlimit { rlim_cur: 0, rlim_max: 0 };
    libc::setrlimit(libc::RLIMIT_CORE, &z);
  }
}

/// ad hoc experiments: vh probe parse|fmt|json|cbor|csv|decode <file> [<docfile>]
fn probe(a: &[String]) {
  let t0 = Instant::now();
  let rd = |p: &str| std::fs::read_to_string(p).expect("read");
  match a[0].as_str() {
    "refac" => {
      let t = rd(&a[1]);
      let g = vh::fromast::gs_of_text(&t).expect("not convertible");
      for kind in vh::refac::KINDS {
        for k in 0..4 {
          match vh::refac::apply(kind, &g, k) {
            Some(x) if x != g => println!("{} k={} wellformed={}\n{}", kind, k, vh::gs::wellformed(&x), vh::gs::print_plain(&x)),
            _ => println!("{} k={} not applicable", kind, k),
          }
        }
      }
      return;
    }
    "docs" => {
      // documents the witness generator produces for a schema, with model and implementation verdicts
      let t = rd(&a[1]);
      let g = vh::fromast::gs_of_text(&t).expect("not convertible");
      let mut rng = vh::rng::Rng::new(a.get(2).and_then(|x| x.parse().ok()).unwrap_or(1));
      for (v, o) in vh::props::c01::gen_docs(&g, &mut rng, true, 12) {
        println!("{:10} model={:8} json={:?} cbor={:?}  {}", o, vh::vcore::model(&g, &v, true).name(), vh::vcore::impl_json(&t, &v), vh::vcore::impl_cbor(&t, &v), v.to_json());
      }
      return;
    }
    "corpus" => {
      // how much of the seed corpus survives text -> tree conversion, and yields documents
      let mut n = 0;
      let mut ok = 0;
      let mut with_docs = 0;
      for s in vh::corpus::schemas() {
        n += 1;
        if let Some(g) = vh::fromast::gs_of_text(s) {
          ok += 1;
          let mut rng = vh::rng::Rng::new(1);
          let docs = vh::props::c01::gen_docs(&g, &mut rng, true, 6);
          let acc = docs.iter().filter(|(v, _)| vh::vcore::impl_json(s, v) == Some(true)).count();
          if acc > 0 {
            with_docs += 1;
          }
          println!("ok rules={} docs={} accepted={} | {}", g.rules.len(), docs.len(), acc, s.lines().next().unwrap_or(""));
        } else {
          println!("-- not converted | {}", s.lines().next().unwrap_or(""));
        }
      }
      println!("corpus {} converted {} with accepted documents {}", n, ok, with_docs);
      return;
    }
    "c17gen" => {
      vh::props::c17::probe_gen(&a[1]);
      return;
    }
    "parse" => {
      let t = rd(&a[1]);
      match cddl::cddl_from_str(&t, false) {
        Ok(c) => println!("Ok: {} rules\n{:#?}", c.rules.len(), c),
        Err(e) => println!("Err: {}", e),
      }
    }
    "all" => {
      let t = rd(&a[1]);
      let t1 = Instant::now();
      let r = cddl::cddl_from_str(&t, false);
      println!("parse {:.4}s ok={}", t1.elapsed().as_secs_f64(), r.is_ok());
      let t1 = Instant::now();
      let r2 = cddl::ast::CDDL::from_slice(t.as_bytes()).map(|_| ());
      println!("from_slice {:.4}s {:?}", t1.elapsed().as_secs_f64(), r2.is_ok());
      let t1 = Instant::now();
      let _ = cddl::parser::root_type_name_from_cddl_str(&t);
      println!("root_type_name {:.4}s", t1.elapsed().as_secs_f64());
      if let Ok(c) = r {
        let t1 = Instant::now();
        let s = c.to_string();
        println!("display {:.4}s len={}", t1.elapsed().as_secs_f64(), s.len());
        let t1 = Instant::now();
        let _ = cddl::cddl_from_str(&s, false).map(|_| ());
        println!("reparse {:.4}s", t1.elapsed().as_secs_f64());
        let t1 = Instant::now();
        let _ = cddl::ast::parent::ParentVisitor::new(&c).map(|_| ());
        println!("parent_visitor {:.4}s", t1.elapsed().as_secs_f64());
      }
    }
    "c20" => {
      let t = rd(&a[1]);
      let mut ctx = vh::sup::Ctx::new("C20", 1, vh::sup::Tier::Quick);
      ctx.verbose = true;
      vh::props::c20::check_text(&mut ctx, &t);
    }
    "parseq" => {
      let t = rd(&a[1]);
      println!("{:?}", cddl::cddl_from_str(&t, false).map(|c| c.rules.len()));
    }
    "fmt" => {
      let t = rd(&a[1]);
      match cddl::cddl_from_str(&t, false) {
        Ok(c) => print!("{}", c),
        Err(e) => println!("Err: {}", e),
      }
    }
    "slice" => {
      let t = rd(&a[1]);
      println!("{:?}", cddl::ast::CDDL::from_slice(t.as_bytes()).map(|c| c.rules.len()));
    }
    "json" => {
      let (s, d) = (rd(&a[1]), rd(&a[2]));
      println!("{:?}", vh::api::vjson(&s, &d, None));
    }
    "cbor" => {
      let (s, d) = (rd(&a[1]), rd(&a[2]));
      println!("{:?}", vh::api::vcbor(&s, &vh::dv::unhex(d.trim()), None));
    }
    "csv" => {
      let (s, d) = (rd(&a[1]), rd(&a[2]));
      println!("{:?}", vh::api::vcsv(&s, &d, Some(a.get(3).map(|x| x == "header").unwrap_or(false)), None));
    }
    "decode" => {
      println!("{:?}", cddl::validator::cbor_value::decode_cbor(&vh::dv::unhex(a[1].trim())));
    }
    _ => eprintln!("unknown probe"),
  }
  eprintln!("[{:.3}s]", t0.elapsed().as_secs_f64());
}
