//! Text -> GSchema for hand-written corpus schemas: the crate's parser reads the text, the
//! AST is transcribed into a derivation tree, and the transcription is accepted only if the
//! skeleton of the tree equals the skeleton of the AST and the tree prints back to a text
//! with the same skeleton (so neither the transcription nor the parser can silently change
//! a corpus schema; C03 separately checks that the parser mirrors the grammar).

use crate::gs::*;
use crate::skel;
use cddl::ast as A;
use cddl::token::{ByteValue, SocketPlug, TagConstraint, Value};

fn ident(i: &A::Identifier) -> String {
  match i.socket {
    Some(SocketPlug::TYPE) => format!("${}", i.ident),
    Some(SocketPlug::GROUP) => format!("$${}", i.ident),
    None => i.ident.to_string(),
  }
}

fn args(a: &Option<A::GenericArgs>) -> Option<Vec<GType1>> {
  match a {
    None => Some(vec![]),
    Some(ga) => ga.args.iter().map(|x| type1(&x.arg)).collect(),
  }
}

fn tagc(c: &Option<TagConstraint>) -> Option<GTagC> {
  match c {
    None => None,
    Some(TagConstraint::Literal(n)) => Some(GTagC::Lit(*n)),
    Some(TagConstraint::Type(t)) => Some(GTagC::Type(t.to_string())),
  }
}

fn type2(t: &A::Type2) -> Option<GType2> {
  use A::Type2::*;
  Some(match t {
    IntValue { value, .. } => GType2::Lit(if *value < 0 { GLit::Nint(*value as i128) } else { GLit::Uint(*value as u64) }),
    UintValue { value, .. } => GType2::Lit(GLit::Uint(*value as u64)),
    FloatValue { value, .. } => GType2::Lit(GLit::Float(*value)),
    TextValue { value, .. } => GType2::Lit(GLit::Text(value.to_string())),
    UTF8ByteString { value, .. } => GType2::Lit(GLit::Bytes(BK::Utf8, value.to_vec())),
    B16ByteString { value, .. } => GType2::Lit(GLit::Bytes(BK::Hex, value.to_vec())),
    B64ByteString { value, .. } => GType2::Lit(GLit::Bytes(BK::B64, value.to_vec())),
    Typename { ident: i, generic_args, .. } => GType2::Name(ident(i), args(generic_args)?),
    ParenthesizedType { pt, .. } => GType2::Paren(type_(pt)?),
    Map { group: g, .. } => GType2::Map(group(g)?),
    Array { group: g, .. } => GType2::Array(group(g)?),
    Unwrap { ident: i, generic_args, .. } => GType2::Unwrap(ident(i), args(generic_args)?),
    ChoiceFromInlineGroup { group: g, .. } => GType2::EnumInline(group(g)?),
    ChoiceFromGroup { ident: i, generic_args, .. } => GType2::EnumName(ident(i), args(generic_args)?),
    TaggedData { tag, t, .. } => GType2::Tag(tagc(tag), type_(t)?),
    DataMajorType { mt, constraint, .. } => GType2::Major(*mt, tagc(constraint)),
    Any { .. } => GType2::Any,
  })
}

fn type1(t: &A::Type1) -> Option<GType1> {
  let t2 = type2(&t.type2)?;
  let op = match &t.operator {
    None => None,
    Some(o) => {
      let op = match &o.operator {
        A::RangeCtlOp::RangeOp { is_inclusive, .. } => GOp::Range { incl: *is_inclusive },
        A::RangeCtlOp::CtlOp { ctrl, .. } => GOp::Ctl(format!("{}", ctrl).trim_start_matches('.').to_string()),
      };
      Some((op, type2(&o.type2)?))
    }
  };
  Some(GType1 { t2, op })
}

fn type_(t: &A::Type) -> Option<GType> {
  Some(GType { choices: t.type_choices.iter().map(|c| type1(&c.type1)).collect::<Option<Vec<_>>>()? })
}

fn occ(o: &Option<A::Occurrence>) -> Option<GOcc> {
  match o {
    None => None,
    Some(o) => Some(match o.occur {
      A::Occur::Optional { .. } => GOcc::Opt,
      A::Occur::ZeroOrMore { .. } => GOcc::Star,
      A::Occur::OneOrMore { .. } => GOcc::Plus,
      A::Occur::Exact { lower, upper, .. } => {
        if lower.is_none() && upper.is_none() {
          GOcc::Star
        } else {
          GOcc::Range(lower.map(|x| x as u64), upper.map(|x| x as u64))
        }
      }
    }),
  }
}

fn lit_of_value(v: &Value) -> GLit {
  match v {
    Value::INT(i) => {
      if *i < 0 {
        GLit::Nint(*i as i128)
      } else {
        GLit::Uint(*i as u64)
      }
    }
    Value::UINT(u) => GLit::Uint(*u as u64),
    Value::FLOAT(f) => GLit::Float(*f),
    Value::TEXT(t) => GLit::Text(t.to_string()),
    Value::BYTE(ByteValue::UTF8(b)) => GLit::Bytes(BK::Utf8, b.to_vec()),
    Value::BYTE(ByteValue::B16(b)) => GLit::Bytes(BK::Hex, b.to_vec()),
    Value::BYTE(ByteValue::B64(b)) => GLit::Bytes(BK::B64, b.to_vec()),
  }
}

fn entry(e: &A::GroupEntry) -> Option<GEntry> {
  Some(match e {
    A::GroupEntry::ValueMemberKey { ge, .. } => {
      let key = match &ge.member_key {
        None => None,
        Some(A::MemberKey::Bareword { ident: i, .. }) => Some(GKey::Bare(ident(i))),
        Some(A::MemberKey::Value { value, .. }) => Some(GKey::Value(lit_of_value(value))),
        Some(A::MemberKey::Type1 { t1, is_cut, .. }) => Some(GKey::Type1 { t1: type1(t1)?, cut: *is_cut }),
        Some(A::MemberKey::NonMemberKey { .. }) => return None,
      };
      GEntry::Val { occ: occ(&ge.occur), key, ty: type_(&ge.entry_type)? }
    }
    A::GroupEntry::TypeGroupname { ge, .. } => GEntry::Name { occ: occ(&ge.occur), name: ident(&ge.name), args: args(&ge.generic_args)? },
    A::GroupEntry::InlineGroup { occur, group: g, .. } => GEntry::Inline { occ: occ(occur), group: group(g)? },
  })
}

fn group(g: &A::Group) -> Option<GGroup> {
  Some(GGroup {
    choices: g
      .group_choices
      .iter()
      .map(|c| Some(GChoice { entries: c.group_entries.iter().map(|(e, _)| entry(e)).collect::<Option<Vec<_>>>()? }))
      .collect::<Option<Vec<_>>>()?,
  })
}

fn rule(r: &A::Rule) -> Option<GRule> {
  Some(match r {
    A::Rule::Type { rule, .. } => GRule {
      name: ident(&rule.name),
      params: rule.generic_params.as_ref().map(|p| p.params.iter().map(|x| ident(&x.param)).collect()).unwrap_or_default(),
      assign: if rule.is_type_choice_alternate { Assign::TypeAlt } else { Assign::Eq },
      body: GBody::Type(type_(&rule.value)?),
    },
    A::Rule::Group { rule, .. } => GRule {
      name: ident(&rule.name),
      params: rule.generic_params.as_ref().map(|p| p.params.iter().map(|x| ident(&x.param)).collect()).unwrap_or_default(),
      assign: if rule.is_group_choice_alternate { Assign::GroupAlt } else { Assign::Eq },
      body: GBody::Group(entry(&rule.entry)?),
    },
  })
}

/// None when the text is not accepted, uses a construct the tree cannot express, or does not
/// survive the double check described in the module comment.
pub fn gs_of_text(text: &str) -> Option<GS> {
  let ast = crate::sup::guard(|| cddl::cddl_from_str(text, false).ok()).ok()??;
  let g = GS { rules: ast.rules.iter().map(rule).collect::<Option<Vec<_>>>()? };
  if skel::skel_gs(&g) != skel::skel_ast(&ast) {
    return None;
  }
  let back = print_plain(&g);
  let ast2 = crate::sup::guard(|| cddl::cddl_from_str(&back, false).ok().map(|a| skel::skel_ast(&a))).ok()??;
  if ast2 != skel::skel_gs(&g) {
    return None;
  }
  Some(g)
}
