//! Shared "confirm -> shrink -> explain" pipeline for properties decided on generated
//! derivation trees (C03, C06, C16 ...).
//!
//! A disagreement is first reproduced under a canonical rendering mode, then shrunk on
//! the derivation tree while its class stays the same, then *explained*: a labelled
//! repair (a tree rewrite that removes one known deviation, e.g. "replace byte-string
//! member keys by text keys") explains the witness iff applying it changes the shrunk
//! tree and makes the disagreement disappear. Labels are what known findings are keyed on.

use crate::gs::{self, Printer, Style, GS};
use crate::rng::Rng;

#[derive(Clone, Debug)]
pub enum Mode {
  /// single spaces, commas between entries, canonical literal spellings
  Plain,
  /// like Plain but without any comma
  NoComma,
  /// like Plain with varied literal spellings (radix, escapes, exponents), seeded
  Spell(u64),
  /// no commas and varied literal spellings
  NoCommaSpell(u64),
  /// Plain with comments at separator positions, seeded
  Comments(u64),
  /// the original random style with a fixed seed (last resort: layout-dependent disagreements)
  Orig(Style, u64),
}

impl Mode {
  pub fn suffix(&self) -> &'static str {
    match self {
      Mode::Plain => "",
      Mode::NoComma => "@nocomma",
      Mode::Spell(_) => "@spelling",
      Mode::NoCommaSpell(_) => "@nocomma+spelling",
      Mode::Comments(_) => "@comments",
      Mode::Orig(..) => "@layout",
    }
  }
}

pub fn render(g: &GS, m: &Mode) -> String {
  let (seed, style) = match m {
    Mode::Plain => (0, Style::plain()),
    Mode::NoComma => (0, Style { commas: 0, ..Style::plain() }),
    Mode::Spell(s) => (*s, Style { vary_literals: true, ..Style::plain() }),
    Mode::NoCommaSpell(s) => (*s, Style { vary_literals: true, commas: 0, ..Style::plain() }),
    Mode::Comments(s) => (*s, Style { comment_pct: 30, ..Style::plain() }),
    Mode::Orig(st, s) => (*s, st.clone()),
  };
  let mut rng = Rng::new(seed);
  let mut p = Printer::new(&mut rng, style);
  p.doc(g);
  p.out
}

pub type Repair = fn(&GS) -> GS;

pub struct Outcome {
  /// one or more signatures to report (one per label when explained)
  pub sigs: Vec<String>,
  pub shrunk_text: String,
  pub mode: Option<Mode>,
  pub labels: Vec<&'static str>,
}

/// `classify(text, g)`: None when the property holds on this text, Some(class) otherwise.
/// `kind_of(class)`: the coarse kind used in front of a label ("reject", "mirror", ...).
pub fn pipeline(
  g: &GS,
  text: &str,
  seed: u64,
  modes: &[Mode],
  classify: &dyn Fn(&str, &GS) -> Option<String>,
  kind_of: &dyn Fn(&str) -> String,
  repairs: &[(&'static str, Repair)],
  budget: usize,
) -> Option<Outcome> {
  let t0 = crate::api::thread_cpu_s();
  let class0 = classify(text, g)?;
  let _ = seed;
  // a slow classification (e.g. the parser's exponential rejection path) makes shrinking unaffordable
  let budget = if crate::api::thread_cpu_s() - t0 > 0.3 { budget.min(20) } else { budget };
  let mode = modes.iter().find(|m| classify(&render(g, m), g).as_deref() == Some(class0.as_str())).cloned();
  let mode = match mode {
    Some(m) => m,
    None => {
      return Some(Outcome { sigs: vec![format!("{}:layout", class0)], shrunk_text: String::new(), mode: None, labels: vec![] });
    }
  };
  let small = gs::shrink(g, false, budget, &mut |c| classify(&render(c, &mode), c).as_deref() == Some(class0.as_str()));
  let st = render(&small, &mode);
  // explanation: apply every repair that changes the tree; if the result holds, minimise the label set
  let mut applied: Vec<(&'static str, Repair)> = vec![];
  let mut cur = small.clone();
  for (l, r) in repairs {
    let n = r(&cur);
    if n != cur {
      applied.push((l, *r));
      cur = n;
    }
  }
  let holds_after = |set: &[(&'static str, Repair)]| -> bool {
    let mut c = small.clone();
    for (_, r) in set {
      c = r(&c);
    }
    c != small && classify(&render(&c, &mode), &c).is_none()
  };
  let mut labels: Vec<&'static str> = vec![];
  if !applied.is_empty() && holds_after(&applied) {
    let mut set = applied.clone();
    let mut i = 0;
    while i < set.len() && set.len() > 1 {
      let mut t = set.clone();
      t.remove(i);
      if holds_after(&t) {
        set = t;
      } else {
        i += 1;
      }
    }
    labels = set.iter().map(|(l, _)| *l).collect();
  }
  let kind = kind_of(&class0);
  let sigs = if labels.is_empty() {
    let tags = gs::tags(&small).into_iter().collect::<Vec<_>>().join(",");
    vec![format!("{}:{}{}", class0, tags, mode.suffix())]
  } else {
    labels.iter().map(|l| format!("{}:{}", kind, l)).collect()
  };
  Some(Outcome { sigs, shrunk_text: st, mode: Some(mode), labels })
}
