//! Sanitizer phases (thorough tier of C05, C11 and C14): the same cases, the same monitors, run by an
//! instrumented build of this harness.
//!
//!  * ASan: `cargo +nightly build --target x86_64-unknown-linux-gnu` with -Zsanitizer=address
//!    into target/vh-asan; the supervisor drives that binary's `child` mode. A sanitizer report
//!    ends the worker (abort_on_error) and is attributed to the journaled case like any crash;
//!    it is reported as `asan-<kind>:<entry point>`. Stack overflows and CPU budgets are not
//!    judged in this phase (the uninstrumented run owns them: ASan changes frame sizes and speed).
//!  * Miri (C11 only): `cargo +nightly miri run -- child C11 ...` in a few single-threaded
//!    interpreter processes over disjoint case ranges; an "Undefined Behavior" diagnostic is a
//!    violation, anything else that stops the interpreter (unsupported operation) is inconclusive.
//!  * TSan (C14 only): -Zsanitizer=thread with -Zbuild-std into target/vh-tsan; every case runs its
//!    calls from 8 barrier-released threads; a report aborts the worker (`tsan:<kind>:<function>`).
//!
//! The crate under test has no `unsafe` of its own; what these phases can see is undefined
//! behaviour or memory errors in the dependencies reached through its API (ciborium-ll, pest,
//! regex, serde_json, base16/64 decoders ...) on hostile inputs.

use crate::sup::{supervise_with, PropDef, RunOpts, Summary, Tier, VERIF};
use serde_json::json;
use std::process::{Command, Stdio};

fn tail(s: &[u8], n: usize) -> String {
  let t = String::from_utf8_lossy(s);
  t.chars().rev().take(n).collect::<String>().chars().rev().collect()
}

pub fn asan_phase(def: &'static PropDef, sum: &mut Summary, tier: Tier, seed: u64, cases: u64) {
  if tier != Tier::Thorough || std::env::var("VH_NO_SAN").is_ok() {
    return;
  }
  let tdir = format!("{}/target/vh-asan", VERIF);
  let b = Command::new("cargo")
    .current_dir(format!("{}/vh", VERIF))
    .env("CARGO_NET_OFFLINE", "true")
    .env("RUSTFLAGS", "-Zsanitizer=address -Cforce-frame-pointers=yes")
    .args(["+nightly", "build", "--offline", "--target", "x86_64-unknown-linux-gnu", "--target-dir", &tdir])
    .stdin(Stdio::null())
    .output();
  let exe = format!("{}/x86_64-unknown-linux-gnu/debug/vh", tdir);
  match b {
    Ok(o) if o.status.success() && std::path::Path::new(&exe).exists() => {}
    Ok(o) => {
      sum.inconclusive.push(format!("sanitizer phase: the ASan build of the harness failed: {}", tail(&o.stderr, 400)));
      return;
    }
    Err(e) => {
      sum.inconclusive.push(format!("sanitizer phase: cargo +nightly could not be started: {}", e));
      return;
    }
  }
  // children inherit the environment of this process
  std::env::set_var("ASAN_OPTIONS", "abort_on_error=1:halt_on_error=1:detect_leaks=0:allocator_may_return_null=1:max_allocation_size_mb=4096:detect_stack_use_after_return=0");
  let o = RunOpts { seed, tier: Tier::Quick, only_case: None };
  let (s2, crashes) = supervise_with(def, &o, &exe, Some(cases));
  std::env::remove_var("ASAN_OPTIONS");
  sum.counters.insert("asan:evaluations".into(), s2.evals);
  sum.counters.insert("asan:cases_crashed_not_judged_here".into(), 0);
  for (k, v) in &s2.counters {
    if k.starts_with("calls:") || k == "violations_seen" {
      sum.counters.insert(format!("asan:{}", k), *v);
    }
  }
  let mut reports = 0;
  for c in &crashes {
    let kind = c["kind"].as_str().unwrap_or("");
    if let Some(k) = kind.strip_prefix("asan-") {
      // A thread stack is an mmap'ed region next to other mappings: when unbounded recursion runs
      // off its end ASan may describe the access as a heap-buffer-overflow. Stack exhaustion is
      // judged by the plain run (known findings by recursing function set), so a report on a case
      // that also kills the uninstrumented worker (or makes it spin) is not judged here.
      let case = c["case"].as_u64().unwrap_or(0);
      if plain_run_dies(def, seed, case) {
        *sum.counters.entry("asan:reports_on_cases_that_exhaust_the_stack_without_asan_not_judged_here".into()).or_insert(0) += 1;
        continue;
      }
      reports += 1;
      let call = c["call"].as_str().unwrap_or("").split('\t').next().unwrap_or("");
      let entry = call.split('/').next().unwrap_or("");
      sum.violations.push(json!({"signature": format!("asan:{}:{}", k, entry), "case": c["case"], "detail": {"phase": "asan", "crash": c, "replay_hint": "build vh with -Zsanitizer=address (see vh/src/san.rs) and run: vh child <prop> --tier quick --from <case> --to <case+1> --step 1"}}));
    } else {
      *sum.counters.entry("asan:cases_crashed_not_judged_here".into()).or_insert(0) += 1;
    }
  }
  sum.counters.insert("asan:reports".into(), reports);
  // monitor violations seen by the instrumented run are the same monitors on the same cases: merge
  for v in s2.violations {
    // timing-based observations are distorted by the instrumentation and belong to the plain run
    if v["signature"].as_str().map(|s| s.starts_with("superpoly:") || s.starts_with("cpu-")).unwrap_or(false) {
      *sum.counters.entry("asan:timing_observations_not_judged_here".into()).or_insert(0) += 1;
      continue;
    }
    let mut v = v;
    v["detail"]["phase"] = json!("asan");
    sum.violations.push(v);
  }
  for (k, n) in s2.known_hits {
    *sum.known_hits.entry(k).or_insert(0) += n;
  }
  if s2.evals == 0 {
    sum.inconclusive.push("sanitizer phase: the ASan run evaluated nothing".into());
  }
}

pub fn miri_phase(def: &'static PropDef, sum: &mut Summary, tier: Tier, seed: u64, procs: u64, cases_per_proc: u64) {
  if tier != Tier::Thorough || std::env::var("VH_NO_SAN").is_ok() {
    return;
  }
  let tdir = format!("{}/target/vh-miri", VERIF);
  let sdir = format!("{}/target/scratch", VERIF);
  let _ = std::fs::create_dir_all(&sdir);
  let mut kids = vec![];
  for p in 0..procs {
    let out = format!("{}/miri-{}-{}-{}.json", sdir, def.id, std::process::id(), p);
    let _ = std::fs::remove_file(&out);
    let child = Command::new("cargo")
      .current_dir(format!("{}/vh", VERIF))
      .env("CARGO_NET_OFFLINE", "true")
      .env("MIRIFLAGS", "-Zmiri-disable-isolation -Zmiri-ignore-leaks -Zmiri-deterministic-floats")
      .env("VH_MIRI", "1")
      .args(["+nightly", "miri", "run", "--offline", "--target-dir", &tdir, "--", "child", def.id, "--seed", &seed.to_string(), "--tier", "quick"])
      // ranges spread over the case space: the first cases are the exhaustive tiny-input sweep,
      // later ones generated items, prefixes and mutants
      .args(["--from", &(p * 500).to_string(), "--to", &(p * 500 + cases_per_proc).to_string(), "--step", "1", "--out", &out])
      .stdin(Stdio::null())
      .stdout(Stdio::null())
      .stderr(Stdio::piped())
      .spawn();
    match child {
      Ok(c) => kids.push((c, out)),
      Err(e) => {
        sum.inconclusive.push(format!("sanitizer phase: cargo +nightly miri could not be started: {}", e));
        return;
      }
    }
  }
  let mut evals = 0u64;
  let mut ub = 0u64;
  for (c, out) in kids {
    let o = match c.wait_with_output() {
      Ok(o) => o,
      Err(e) => {
        sum.inconclusive.push(format!("sanitizer phase: waiting for miri failed: {}", e));
        continue;
      }
    };
    let err = String::from_utf8_lossy(&o.stderr).to_string();
    if let Ok(t) = std::fs::read_to_string(&out) {
      if let Ok(v) = serde_json::from_str::<serde_json::Value>(&t) {
        evals += v["evals"].as_u64().unwrap_or(0);
        for x in v["violations"].as_array().cloned().unwrap_or_default() {
          let mut x = x;
          x["detail"]["phase"] = json!("miri");
          sum.violations.push(x);
        }
      }
    }
    let _ = std::fs::remove_file(&out);
    if err.contains("Undefined Behavior") {
      ub += 1;
      let first = err.lines().find(|l| l.contains("Undefined Behavior")).unwrap_or("").to_string();
      let at = err.lines().find(|l| l.trim_start().starts_with("-->")).unwrap_or("").trim().to_string();
      sum.violations.push(json!({"signature": format!("miri-undefined-behaviour:{}", at.split(':').next().unwrap_or("").trim_start_matches("--> ")), "case": 0, "detail": {"phase": "miri", "diagnostic": first, "at": at, "stderr_tail": tail(err.as_bytes(), 3000)}}));
    } else if !o.status.success() {
      sum.inconclusive.push(format!("sanitizer phase: a miri process stopped without an undefined-behaviour diagnostic: {}", tail(err.as_bytes(), 500)));
    }
  }
  sum.counters.insert("miri:evaluations".into(), evals);
  sum.counters.insert("miri:undefined_behaviour_reports".into(), ub);
  if evals == 0 {
    sum.inconclusive.push("sanitizer phase: the Miri run evaluated nothing".into());
  }
}

/// ThreadSanitizer phase (thorough tier of C14): the harness is rebuilt with -Zsanitizer=thread and
/// an instrumented standard library (-Zbuild-std; `--cfg has_std` because indexmap 1.9's build
/// script mis-detects std under build-std), and the supervisor drives that binary over the first
/// `cases` cases. Every case of C14 validates the same calls from 8 threads released by a barrier,
/// so every access the crate and its dependencies make during validation is observed with
/// concurrent peers. A report (data race, lock-order inversion, ...) aborts the worker and is
/// attributed to the journaled case; the signature is the report kind plus the first frame that
/// is not in the sanitizer runtime or std. The determinism monitors run unchanged in this build.
pub fn tsan_phase(def: &'static PropDef, sum: &mut Summary, tier: Tier, seed: u64, cases: u64) {
  if tier != Tier::Thorough || std::env::var("VH_NO_SAN").is_ok() {
    return;
  }
  let tdir = format!("{}/target/vh-tsan", VERIF);
  let b = Command::new("cargo")
    .current_dir(format!("{}/vh", VERIF))
    .env("CARGO_NET_OFFLINE", "true")
    .env("RUSTFLAGS", "-Zsanitizer=thread --cfg has_std")
    .args(["+nightly", "build", "--offline", "-Zbuild-std", "--target", "x86_64-unknown-linux-gnu", "--target-dir", &tdir])
    .stdin(Stdio::null())
    .output();
  let exe = format!("{}/x86_64-unknown-linux-gnu/debug/vh", tdir);
  match b {
    Ok(o) if o.status.success() && std::path::Path::new(&exe).exists() => {}
    Ok(o) => {
      sum.inconclusive.push(format!("sanitizer phase: the TSan build of the harness failed: {}", tail(&o.stderr, 400)));
      return;
    }
    Err(e) => {
      sum.inconclusive.push(format!("sanitizer phase: cargo +nightly could not be started: {}", e));
      return;
    }
  }
  std::env::set_var("TSAN_OPTIONS", "halt_on_error=1:abort_on_error=1:second_deadlock_stack=1:history_size=4");
  let o = RunOpts { seed, tier: Tier::Quick, only_case: None };
  let (s2, crashes) = supervise_with(def, &o, &exe, Some(cases));
  std::env::remove_var("TSAN_OPTIONS");
  sum.counters.insert("tsan:evaluations".into(), s2.evals);
  for (k, v) in &s2.counters {
    if k == "calls_compared_concurrent" || k == "overlapping_call_pairs" || k == "cases_without_overlap" || k == "rejecting_calls" {
      sum.counters.insert(format!("tsan:{}", k), *v);
    }
  }
  let mut reports = 0u64;
  let mut other = 0u64;
  for c in &crashes {
    let kind = c["kind"].as_str().unwrap_or("");
    if let Some(k) = kind.strip_prefix("tsan-") {
      reports += 1;
      let frames: Vec<String> = c["tsan_frames"].as_array().map(|a| a.iter().filter_map(|x| x.as_str().map(|s| s.to_string())).collect()).unwrap_or_default();
      // "    #1 cddl::validator::json::JSONValidator::visit_type /repo/src/validator/json.rs:1054 (vh+0x...)"
      let first = frames
        .iter()
        .map(|f| f.trim_start().splitn(2, ' ').nth(1).unwrap_or("").to_string())
        .find(|f| !f.starts_with("__tsan") && !f.starts_with("std::") && !f.starts_with("core::") && !f.starts_with("alloc::") && !f.starts_with("__interceptor") && !f.is_empty())
        .unwrap_or_default();
      let func = first.split_whitespace().next().unwrap_or("?").to_string();
      sum.violations.push(json!({"signature": format!("tsan:{}:{}", k, func), "case": c["case"], "detail": {"phase": "tsan", "crash": c, "replay_hint": "build vh with -Zsanitizer=thread (see vh/src/san.rs) and run: vh child C14 --tier quick --from <case> --to <case+1> --step 1"}}));
    } else {
      other += 1;
      *sum.counters.entry(format!("tsan:crashed_not_judged:{}", kind)).or_insert(0) += 1;
    }
  }
  sum.counters.insert("tsan:reports".into(), reports);
  sum.counters.insert("tsan:cases_crashed_not_judged_here".into(), other);
  for v in s2.violations.clone() {
    let mut v = v;
    v["detail"]["phase"] = json!("tsan");
    sum.violations.push(v);
  }
  for (k, n) in &s2.known_hits {
    *sum.known_hits.entry(k.clone()).or_insert(0) += *n;
  }
  if s2.evals == 0 || s2.c("overlapping_call_pairs") == 0 {
    sum.inconclusive.push(format!("sanitizer phase: the TSan run observed too little (evaluations {}, overlapping call pairs {})", s2.evals, s2.c("overlapping_call_pairs")));
  }
}

/// does the uninstrumented harness die (signal / abort) or exceed 60 s on this single case?
fn plain_run_dies(def: &'static PropDef, seed: u64, case: u64) -> bool {
  let exe = match std::env::current_exe() {
    Ok(e) => e,
    Err(_) => return false,
  };
  let asan = std::env::var("ASAN_OPTIONS").ok();
  std::env::remove_var("ASAN_OPTIONS");
  let st = Command::new("timeout")
    .arg("60")
    .arg(exe)
    .args(["child", def.id, "--seed", &seed.to_string(), "--tier", "quick", "--from", &case.to_string(), "--to", &(case + 1).to_string(), "--step", "1", "--out", "/dev/null"])
    .stdin(Stdio::null())
    .stdout(Stdio::null())
    .stderr(Stdio::null())
    .status();
  if let Some(a) = asan {
    std::env::set_var("ASAN_OPTIONS", a);
  }
  match st {
    Ok(s) => !s.success(),
    Err(_) => false,
  }
}
