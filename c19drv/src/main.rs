//! C19 driver: built once per cargo feature set; reads a workload (JSON lines) and writes one
//! result record per line (flushed per item, so a crash loses only the item it happened in).
//! An item that makes no progress for 5 s ends the process (exit 3): the harness records the
//! item as "died" for this build and restarts behind it.
mod ops;
use std::io::{BufRead, Write};
use std::sync::atomic::{AtomicU64, Ordering};
use std::sync::Arc;

fn main() {
  let a: Vec<String> = std::env::args().collect();
  std::panic::set_hook(Box::new(|_| {}));
  let inp = std::io::BufReader::new(std::fs::File::open(&a[1]).expect("workload"));
  let outp = a[2].clone();
  // a[3] = index of the first item to process (records are appended): the harness restarts the
  // driver behind an item that killed it
  let start: usize = a.get(3).and_then(|x| x.parse().ok()).unwrap_or(0);
  let progress = Arc::new(AtomicU64::new(0));
  let p2 = progress.clone();
  let h = std::thread::Builder::new()
    .stack_size(256 << 20)
    .spawn(move || {
      let mut out = std::fs::OpenOptions::new().create(true).append(true).open(&outp).expect("out");
      for l in inp.lines().skip(start) {
        let l = l.expect("line");
        let item: serde_json::Value = serde_json::from_str(&l).expect("json");
        let r = ops::result_of(&item);
        writeln!(out, "{}", r).unwrap();
        out.flush().unwrap();
        p2.fetch_add(1, Ordering::SeqCst);
      }
    })
    .unwrap();
  let mut last = 0;
  let mut since = std::time::Instant::now();
  while !h.is_finished() {
    std::thread::sleep(std::time::Duration::from_millis(50));
    let p = progress.load(Ordering::SeqCst);
    if p != last {
      last = p;
      since = std::time::Instant::now();
    } else if since.elapsed().as_secs() >= 5 {
      std::process::exit(3);
    }
  }
  if h.join().is_err() {
    std::process::exit(4);
  }
}
