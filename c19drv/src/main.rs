//! C19 driver: built once per cargo feature set; reads a workload (JSON lines) and writes one
//! result record per line (flushed per item, so a crash loses only the item it happened in).
mod ops;
use std::io::{BufRead, Write};

fn main() {
  let a: Vec<String> = std::env::args().collect();
  std::panic::set_hook(Box::new(|_| {}));
  let inp = std::io::BufReader::new(std::fs::File::open(&a[1]).expect("workload"));
  let outp = a[2].clone();
  // a[3] = index of the first item to process (records are appended): the harness restarts the
  // driver behind an item that killed it
  let start: usize = a.get(3).and_then(|x| x.parse().ok()).unwrap_or(0);
  let h = std::thread::Builder::new()
    .stack_size(256 << 20)
    .spawn(move || {
      let mut out = std::fs::OpenOptions::new().create(true).append(true).open(&outp).expect("out");
      for l in inp.lines().skip(start) {
        let l = l.expect("line");
        let item: serde_json::Value = serde_json::from_str(&l).expect("json");
        let r = ops::result_of(&item);
        writeln!(out, "{}", r).unwrap();
        out.flush().unwrap();
      }
    })
    .unwrap();
  h.join().unwrap();
}
