// Shared between the feature-parametrised driver (c19drv) and the harness (vh, all features):
// one workload item -> one result record. Only cfg(feature) decides what is available.
use serde_json::{json, Value};
use std::panic::{catch_unwind, AssertUnwindSafe};

fn guard<T>(f: impl FnOnce() -> T) -> Result<T, ()> {
  catch_unwind(AssertUnwindSafe(f)).map_err(|_| ())
}

fn hex(s: &str) -> Vec<u8> {
  (0..s.len() / 2).map(|i| u8::from_str_radix(&s[2 * i..2 * i + 2], 16).unwrap_or(0)).collect()
}

pub fn feature_list(item: &Value) -> Vec<String> {
  item["features"].as_array().map(|a| a.iter().filter_map(|x| x.as_str().map(|s| s.to_string())).collect()).unwrap_or_default()
}

#[allow(unused_variables)]
pub fn result_of(item: &Value) -> Value {
  let schema = item["schema"].as_str().unwrap_or("");
  let fl = feature_list(item);
  let flr: Vec<&str> = fl.iter().map(|s| s.as_str()).collect();
  let feats: Option<&[&str]> = if flr.is_empty() { None } else { Some(&flr) };
  let mut out = json!({});
  match guard(|| cddl::cddl_from_str(schema, false).map(|c| (c.to_string(), format!("{:?}", c)))) {
    Err(()) => {
      out["parse"] = json!("panic");
    }
    Ok(Err(_)) => {
      out["parse"] = json!("err");
    }
    Ok(Ok((d, a))) => {
      out["parse"] = json!("ok");
      out["display"] = json!(d);
      out["ast"] = json!(a);
    }
  }
  #[cfg(feature = "json")]
  {
    let mut v = vec![];
    for d in item["json"].as_array().cloned().unwrap_or_default() {
      let d = d.as_str().unwrap_or("").to_string();
      use cddl::validator::json::Error as E;
      #[cfg(feature = "additional-controls")]
      let r = guard(|| cddl::validate_json_from_str(schema, &d, feats));
      #[cfg(not(feature = "additional-controls"))]
      let r = guard(|| cddl::validate_json_from_str(schema, &d));
      v.push(match r {
        Err(()) => "panic".to_string(),
        Ok(Ok(())) => "ok".to_string(),
        Ok(Err(E::Validation(l))) => format!("invalid:{}", l.len()),
        Ok(Err(E::CDDLParsing(_))) => "schema".to_string(),
        Ok(Err(E::JSONParsing(_))) => "doc".to_string(),
        Ok(Err(_)) => "other".to_string(),
      });
    }
    out["json"] = json!(v);
  }
  #[cfg(feature = "cbor")]
  {
    let mut v = vec![];
    for d in item["cbor"].as_array().cloned().unwrap_or_default() {
      let b = hex(d.as_str().unwrap_or(""));
      use cddl::validator::cbor::Error as E;
      #[cfg(feature = "additional-controls")]
      let r = guard(|| cddl::validate_cbor_from_slice(schema, &b, feats));
      #[cfg(not(feature = "additional-controls"))]
      let r = guard(|| cddl::validate_cbor_from_slice(schema, &b));
      v.push(match r {
        Err(()) => "panic".to_string(),
        Ok(Ok(())) => "ok".to_string(),
        Ok(Err(E::Validation(l))) => format!("invalid:{}", l.len()),
        Ok(Err(E::CDDLParsing(_))) => "schema".to_string(),
        Ok(Err(E::CBORParsing(_))) => "doc".to_string(),
        Ok(Err(_)) => "other".to_string(),
      });
    }
    out["cbor"] = json!(v);
  }
  #[cfg(feature = "csv-validate")]
  {
    let mut v = vec![];
    for d in item["csv"].as_array().cloned().unwrap_or_default() {
      let t = d["text"].as_str().unwrap_or("").to_string();
      let h = d["header"].as_bool();
      #[cfg(feature = "additional-controls")]
      let r = guard(|| cddl::validate_csv_from_str(schema, &t, h, feats).is_ok());
      #[cfg(not(feature = "additional-controls"))]
      let r = guard(|| cddl::validate_csv_from_str(schema, &t, h).is_ok());
      v.push(match r {
        Err(()) => "panic".to_string(),
        Ok(true) => "ok".to_string(),
        Ok(false) => "err".to_string(),
      });
    }
    out["csv"] = json!(v);
  }
  out
}
