#!/usr/bin/env python3-vt
import json, sys, glob, jsonschema
sch = json.load(open('/root/.vp/EVIDENCE.schema.json'))
bad = 0
for f in sorted(glob.glob('/verif/evidence/*.json')):
    try:
        jsonschema.validate(json.load(open(f)), sch)
        print("ok  ", f)
    except Exception as e:
        bad += 1
        print("BAD ", f, str(e)[:300])
jsonschema.validate(json.load(open('/verif/MANIFEST.json')), json.load(open('/root/.vp/MANIFEST.schema.json')))
print("manifest ok")
sys.exit(1 if bad else 0)
